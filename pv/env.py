"""Pin the code under test to the working tree and import it.

Every check imports pacti through this module.  The source root is /repo/src
unless PV_SRC names another directory (used only by sensitivity runs against
scratch copies; MANIFEST commands never set it).  A pacti imported from anywhere
else is a harness error (exit 2), never a verdict.
"""
import os
import sys
import warnings

SRC = os.environ.get("PV_SRC", "/repo/src")
VERIF = os.path.dirname(os.path.dirname(os.path.abspath(__file__)))
os.environ.setdefault("MPLBACKEND", "Agg")
if os.environ.get("PACTI_VERIF") is None:
    os.environ["PACTI_VERIF"] = "1"  # reserved guard; no hook in /repo reads it

_deps = os.path.join(VERIF, ".deps")
if os.path.isdir(_deps) and _deps not in sys.path:
    sys.path.append(_deps)
if SRC in sys.path:
    sys.path.remove(SRC)
sys.path.insert(0, SRC)
warnings.filterwarnings("ignore")

import logging  # noqa: E402

logging.disable(logging.CRITICAL)  # pacti formats huge debug strings eagerly otherwise

try:
    import pacti  # noqa: E402
except Exception as e:  # pragma: no cover
    sys.stderr.write("HARNESS-ERROR: cannot import pacti from %s: %r\n" % (SRC, e))
    sys.exit(2)
if not os.path.abspath(pacti.__file__).startswith(os.path.abspath(SRC) + os.sep):
    sys.stderr.write("HARNESS-ERROR: pacti imported from %s, expected under %s\n" % (pacti.__file__, SRC))
    sys.exit(2)

from pacti.iocontract import IoContract, Term, TermList, Var  # noqa: E402,F401
from pacti.iocontract import IoContractCompound, NestedTermList  # noqa: E402,F401
from pacti.terms.polyhedra import PolyhedralTerm, PolyhedralTermList  # noqa: E402,F401
from pacti.contracts import PolyhedralIoContract, PolyhedralIoContractCompound  # noqa: E402,F401
from pacti.contracts.polyhedral_iocontract import NestedPolyhedra  # noqa: E402,F401
from pacti.utils.errors import (  # noqa: E402,F401
    ContractFormatError,
    FileDataFormatError,
    IncompatibleArgsError,
    PolyhedralSyntaxConvexException,
    PolyhedralSyntaxException,
)
from pacti.terms.polyhedra import serializer  # noqa: E402,F401


# --------------------------------------------------------------------------
# plain-data <-> pacti objects.  A term is [coeffs: {name: float}, const: float];
# a term list is a list of terms; a contract is {"a":[...],"g":[...],"i":[...],"o":[...]}.

def T(t):
    return PolyhedralTerm({Var(k): v for k, v in t[0].items()}, t[1])


def TL(ts):
    return PolyhedralTermList([T(t) for t in ts])


def C(c, simplify=True):
    return PolyhedralIoContract(TL(c["a"]), TL(c["g"]), [Var(v) for v in c["i"]], [Var(v) for v in c["o"]], simplify)


def t_data(term):
    return [{v.name: float(a) for v, a in term.variables.items()}, float(term.constant)]


def tl_data(tl):
    return [t_data(t) for t in tl.terms]


def c_data(c):
    return {"a": tl_data(c.a), "g": tl_data(c.g), "i": [v.name for v in c.inputvars], "o": [v.name for v in c.outputvars]}


class Undocumented(Exception):
    """An exception type outside the operation's documented set escaped from pacti."""

    def __init__(self, exc, op):
        super().__init__("%s in %s: %s" % (type(exc).__name__, op, exc))
        self.exc = exc
        self.op = op
        self.site = innermost_site(exc)


def innermost_site(exc):
    """(file:function) of the innermost traceback frame that lies in the pacti source tree."""
    tb = exc.__traceback__
    site = None
    root = os.path.abspath(SRC)
    while tb is not None:
        fn = tb.tb_frame.f_code.co_filename
        if os.path.abspath(fn).startswith(root):
            site = "%s:%s" % (os.path.relpath(fn, root), tb.tb_frame.f_code.co_name)
        tb = tb.tb_next
    return site or "outside-pacti"


ALGEBRA_DOCUMENTED = (ValueError,)  # IncompatibleArgsError is a ValueError
STRING_DOCUMENTED = (ValueError, PolyhedralSyntaxException, PolyhedralSyntaxConvexException)
FORMAT_DOCUMENTED = (ValueError, FileDataFormatError, PolyhedralSyntaxException, PolyhedralSyntaxConvexException)


def call(op, fn, *args, documented=ALGEBRA_DOCUMENTED, **kw):
    """Run one pacti call.  Returns ("ok", value) or ("refused", exc) for a documented
    exception; raises Undocumented for anything else (classified by the caller)."""
    try:
        return "ok", fn(*args, **kw)
    except documented as e:
        return "refused", e
    except (KeyboardInterrupt, SystemExit, MemoryError):
        raise
    except BaseException as e:  # noqa: B902
        raise Undocumented(e, op) from e
