"""C06  Results are well formed with the prescribed interface; bad interfaces rejected."""
import itertools

from hypothesis import strategies as st

from pv import env, finite, gens, model
from pv.props import c01, c02, c08, c16

ID = "C06"
LEVEL = "exploration"
N = {"quick": 120, "thorough": 2500}
NV = {"quick": 4, "thorough": 5}
RULE = ("enumerated part: every assignment of roles {absent,input,output}^2 to 4 (quick) / 5 (thorough) variables x assumptions mention "
        "{nothing, all inputs} per contract (for merge and compose also operands without any constraint) x operation in compose (keep in none / first output / first shared output / a non-output), "
        "quotient (additional inputs none / one legal / one illegal), merge, refines (must raise unless the interfaces are equal as sets), rename (every source,target pair incl. a fresh name, first "
        "contract only), over a stub theory whose primitives always succeed exactly, so a refusal can only come from the interface logic; "
        "plus ill-formed constructor arguments; generated part: the polyhedral cases of C01/C02/C08/C16; oracle = reference model of the "
        "prescribed interfaces and admissibility written from the property text; non-trivial = both contracts have an interface "
        "variable in common or the request must be rejected; distinct = SHA-1 of the case")
ASSUMPTIONS = ["interfaces are compared as sets (order is not prescribed)", "with exactly-succeeding primitives a meaningful request must return"]
EXHAUSTIVE = {"quick": True, "thorough": True}
NAMES5 = ["a", "b", "c", "d", "e"]
PAIRS = [p for p in itertools.product("-io", repeat=2)]


def enumerate_cases(tier):
    nv = NV[tier]
    names = NAMES5[:nv]
    for combo in itertools.product(range(9), repeat=nv):
        r1 = "".join(PAIRS[k][0] for k in combo)
        r2 = "".join(PAIRS[k][1] for k in combo)
        o_all = [n for n, a, b in zip(names, r1, r2) if a == "o" or b == "o"]
        non_out = [n for n, a, b in zip(names, r1, r2) if a != "o" and b != "o"]
        shared = [n for n, a, b in zip(names, r1, r2) if {a, b} == {"i", "o"}]
        for am in ((0, 0), (1, 1), (1, 0), (0, 1)):
            base = {"src": "enum", "nv": nv, "r1": r1, "r2": r2, "am": am}
            keeps = [[]] + ([[o_all[0]]] if o_all else []) + ([[shared[0]]] if shared and shared[0] != (o_all[0] if o_all else None) else []) + ([[non_out[0]]] if non_out else [["zz"]])
            for keep in keeps:
                yield dict(base, op="compose", arg=keep)
            i1 = [n for n, a in zip(names, r1) if a == "i"]
            o2 = [n for n, b in zip(names, r2) if b == "o"]
            legal = list(dict.fromkeys(o2 + i1))
            illegal = [n for n in names if n not in legal]
            addls = [[]] + ([[legal[0]]] if legal else []) + ([[legal[-1]]] if len(legal) > 1 else []) + ([[illegal[0]]] if illegal else [["zz"]])
            for addl in addls:
                yield dict(base, op="quotient", arg=addl)
            if am in ((0, 0), (1, 1)):
                yield dict(base, op="merge", arg=None)
            if am == (0, 0):
                # operands without any constraint (empty assumptions and guarantees) still contribute their interface
                for gm in ((0, 1), (1, 0), (0, 0)):
                    yield dict(base, op="merge", arg=None, gm=gm)
                yield dict(base, op="compose", arg=[], gm=(0, 1))
                yield dict(base, op="compose", arg=[], gm=(1, 0))
            if am == (0, 0):
                yield dict(base, op="refines", arg=None)
                yield dict(base, op="refines", arg=None, rev=True)     # the same second interface listed in reverse order
        if all(b == "-" for b in r2):
            for s in names + ["zz"]:
                for t in names + ["q"]:
                    yield {"src": "enum", "nv": nv, "r1": r1, "r2": r2, "am": (1, 0), "op": "rename", "arg": [s, t]}
    # ill-formed constructor arguments over the polyhedral theory, the offending variable entering with an ordinary or a tiny coefficient
    for kind in ("assumption-on-output", "assumption-on-unknown", "guarantee-on-unknown", "fine"):
        for eps in (1.0, 2.0 ** -30, 1e-12):
            for simplify in (True, False):
                yield {"src": "enum", "op": "construct-poly", "arg": kind, "eps": eps, "simplify": simplify, "nv": 3, "r1": "", "r2": "", "am": (0, 0)}
    # ill-formed constructor arguments
    for kind in ("dup-input", "dup-output", "overlap", "assumption-on-output", "assumption-on-unknown", "guarantee-on-unknown", "fine"):
        for simplify in (True, False):
            yield {"src": "enum", "op": "construct", "arg": kind, "simplify": simplify, "nv": 3, "r1": "", "r2": "", "am": (0, 0)}


@st.composite
def _poly(draw):
    src = draw(st.sampled_from(["C01", "C01", "C02", "C08", "C16"]))
    mod = {"C01": c01, "C02": c02, "C08": c08, "C16": c16}[src]
    return {"src": src, "case": draw(mod.strategy("quick"))}


def strategy(tier):
    return _poly()


def _stub_contract(names, roles, amode, gmode=1, rev=False):
    ins = [n for n, r in zip(names, roles) if r == "i"]
    outs = [n for n, r in zip(names, roles) if r == "o"]
    if rev:
        ins, outs = ins[::-1], outs[::-1]
    d = {"i": ins, "o": outs, "a": [[ins, (1 << (2 ** len(ins))) - 1]] if (amode and ins) else [],
         "g": [[ins + outs, (1 << (2 ** len(ins + outs))) - 1]] if (ins + outs and gmode) else []}
    return finite.contract_from(d, True), d


def _vars(tl):
    return {v.name for v in tl.vars}


def judge(op, verdict, status, res, extra=None):
    """compare one outcome with the model verdict; returns viol or None"""
    if verdict[0] == "reject":
        if status == "ok" or not isinstance(res, env.IncompatibleArgsError):
            return {"what": "%s: a request without meaning (%s) was not rejected with IncompatibleArgsError (got %s)" % (op, verdict[1], "a contract" if status == "ok" else repr(res)),
                    "sig": {"kind": "bad-request-accepted", "op": op, "reason": verdict[1]}, "detail": extra or {}}
        return None
    if status != "ok":
        return {"what": "%s: a meaningful request was refused: %r" % (op, res), "sig": {"kind": "good-request-refused", "op": op, "error": type(res).__name__},
                "detail": extra or {}}
    c = res
    ins, outs = [v.name for v in c.inputvars], [v.name for v in c.outputvars]
    wf = model.well_formed(ins, outs, _vars(c.a), _vars(c.g))
    if wf:
        return {"what": "%s returned an ill-formed contract (%s): inputs %s outputs %s" % (op, wf, ins, outs),
                "sig": {"kind": "ill-formed-result", "op": op, "reason": wf}, "detail": extra or {}}
    if set(ins) != verdict[1] or set(outs) != verdict[2]:
        return {"what": "%s returned interface in=%s out=%s, prescribed in=%s out=%s" % (op, sorted(ins), sorted(outs), sorted(verdict[1]), sorted(verdict[2])),
                "sig": {"kind": "wrong-interface", "op": op}, "detail": extra or {}}
    return None


def _run_enum(case):
    op = case["op"]
    labels = ["src:enum", "op:" + op]
    V = env.Var
    if op == "construct-poly":
        kind, eps = case["arg"], case["eps"]
        a = [[{"a": 1.0}, 3.0]]
        g = [[{"a": 1.0, "x": 1.0}, 5.0]]
        if kind == "assumption-on-output":
            a = [[{"a": 1.0, "x": eps}, 3.0]]
        elif kind == "assumption-on-unknown":
            a = [[{"a": 1.0, "q": eps}, 3.0]]
        elif kind == "guarantee-on-unknown":
            g = [[{"a": 1.0, "x": 1.0, "q": eps}, 5.0]]
        else:
            g = [[{"a": 1.0, "x": 1.0, "b": eps}, 5.0]]
        status, res = env.call("PolyhedralIoContract()", env.C, {"i": ["a", "b"], "o": ["x"], "a": a, "g": g}, case["simplify"])
        verdict = ("ok", {"a", "b"}, {"x"}) if kind == "fine" else ("reject", kind)
        return {"viol": judge("constructor", verdict, status, res), "nontrivial": True,
                "labels": labels + ["ctor:" + kind, "eps:%g" % eps], "outcome": "judged"}
    if op == "construct":
        finite.World.reset(["a", "b", "x"], [], "exact")
        kind = case["arg"]
        ins, outs = ["a", "b"], ["x"]
        a = [[["a"], 3]]
        g = [[["a", "x"], 15]]
        if kind == "dup-input":
            ins = ["a", "b", "a"]
        elif kind == "dup-output":
            outs = ["x", "x"]
        elif kind == "overlap":
            outs = ["x", "a"]
        elif kind == "assumption-on-output":
            a = [[["x"], 3]]
        elif kind == "assumption-on-unknown":
            a = [[["q"], 3]]
        elif kind == "guarantee-on-unknown":
            g = [[["a", "q"], 15]]
        finite.World.names = ["a", "b", "x", "q"]
        status, res = env.call("IoContract()", finite.contract_from, {"i": ins, "o": outs, "a": a, "g": g}, case["simplify"])
        verdict = ("ok", {"a", "b"}, {"x"}) if kind == "fine" else ("reject", kind)
        return {"viol": judge("constructor", verdict, status, res), "nontrivial": True, "labels": labels + ["ctor:" + kind], "outcome": "judged"}
    names = NAMES5[:case["nv"]]
    finite.World.reset(names + ["q", "zz"], [], "exact")
    gm = case.get("gm", (1, 1))
    c1, d1 = _stub_contract(names, case["r1"], case["am"][0], gm[0])
    c2, d2 = _stub_contract(names, case["r2"], case["am"][1], gm[1], rev=case.get("rev", False))
    if "gm" in case:
        labels.append("constraint-free-operand")
    a1v = set(d1["i"]) if d1["a"] else set()
    a2v = set(d2["i"]) if d2["a"] else set()
    common = bool((set(d1["i"]) | set(d1["o"])) & (set(d2["i"]) | set(d2["o"])))
    if op == "compose":
        verdict = model.compose_iface(d1["i"], d1["o"], a1v, d2["i"], d2["o"], a2v, case["arg"])
        status, res = env.call("compose", c1.compose, c2, [V(v) for v in case["arg"]])
    elif op == "quotient":
        verdict = model.quotient_iface(d1["i"], d1["o"], d2["i"], d2["o"], case["arg"])
        status, res = env.call("quotient", c1.quotient, c2, [V(v) for v in case["arg"]])
    elif op == "refines":
        same = set(d1["i"]) == set(d2["i"]) and set(d1["o"]) == set(d2["o"])
        status, res = env.call("refines", c1.refines, c2)
        viol = None
        if same and status != "ok":
            viol = {"what": "refines over equal interfaces raised %r" % (res,), "sig": {"kind": "good-request-refused", "op": "refines", "error": type(res).__name__}, "detail": {}}
        if not same and (status == "ok" or not isinstance(res, env.IncompatibleArgsError)):
            viol = {"what": "refines across different interfaces (in %s/%s out %s/%s) did not raise IncompatibleArgsError" % (d1["i"], d2["i"], d1["o"], d2["o"]),
                    "sig": {"kind": "bad-request-accepted", "op": "refines", "reason": "different-interfaces"}, "detail": {}}
        return {"viol": viol, "nontrivial": True, "labels": labels + ["model:" + ("same" if same else "reject:different-interfaces")], "outcome": "judged"}
    elif op == "merge":
        verdict = model.merge_iface(d1["i"], d1["o"], d2["i"], d2["o"])
        status, res = env.call("merge", c1.merge, c2)
    else:
        s, t = case["arg"]
        verdict = model.rename_iface(d1["i"], d1["o"], s, t)
        status, res = env.call("rename_variable", c1.rename_variable, V(s), V(t))
        common = True
    labels.append("model:" + (verdict[0] if verdict[0] == "ok" else "reject:" + verdict[1]))
    viol = judge(op, verdict, status, res, {"roles": [case["r1"], case["r2"]], "arg": case["arg"]})
    return {"viol": viol, "nontrivial": common or verdict[0] == "reject", "labels": labels, "outcome": "judged"}


def _run_poly(case):
    src, cs = case["src"], case["case"]
    labels = ["src:" + src]
    if src == "C01":
        pair = c01.build_pair(cs, labels)
        if pair is None:
            return {"viol": None, "nontrivial": False, "labels": labels, "outcome": "construction-refused"}
        c1, c2 = pair
        status, res = c01.compose(cs, c1, c2)
        d1, d2 = env.c_data(c1), env.c_data(c2)
        verdict = model.compose_iface(d1["i"], d1["o"], _vars(c1.a), d2["i"], d2["o"], _vars(c2.a), cs["keep"])
        if status == "refused" and verdict[0] == "ok":
            # a polyhedral elimination may legitimately fail: not an interface matter
            return {"viol": None, "nontrivial": False, "labels": labels + ["elimination-refused"], "outcome": "refused"}
        return {"viol": judge("compose", verdict, status, res[0] if status == "ok" else res), "nontrivial": True, "labels": labels, "outcome": "judged"}
    if src == "C08":
        s1, c1 = env.call("construct", env.C, cs["c1"])
        s2, c2 = env.call("construct", env.C, cs["c2"])
        if s1 != "ok" or s2 != "ok":
            return {"viol": None, "nontrivial": False, "labels": labels, "outcome": "construction-refused"}
        status, res = env.call("merge", c1.merge, c2)
        d1, d2 = env.c_data(c1), env.c_data(c2)
        verdict = model.merge_iface(d1["i"], d1["o"], d2["i"], d2["o"])
        if status == "refused" and verdict[0] == "ok" and not isinstance(res, env.IncompatibleArgsError):
            return {"viol": None, "nontrivial": False, "labels": labels + ["unsatisfiable"], "outcome": "refused"}
        return {"viol": judge("merge", verdict, status, res), "nontrivial": True, "labels": labels, "outcome": "judged"}
    if src == "C16":
        s0, con = env.call("construct", env.C, cs["c"])
        if s0 != "ok":
            return {"viol": None, "nontrivial": False, "labels": labels, "outcome": "construction-refused"}
        d = env.c_data(con)
        ins, outs = d["i"], d["o"]
        verdict = ("ok", set(ins), set(outs))
        cur = con
        for s, t in cs["maps"]:
            verdict = model.rename_iface(sorted(verdict[1]), sorted(verdict[2]), s, t)
            status, cur2 = env.call("rename_variable", cur.rename_variable, env.Var(s), env.Var(t))
            if verdict[0] == "reject" or status != "ok":
                if status == "refused" and verdict[0] == "ok" and not isinstance(cur2, env.IncompatibleArgsError):
                    return {"viol": None, "nontrivial": False, "labels": labels + ["unsatisfiable"], "outcome": "refused"}
                return {"viol": judge("rename", verdict, status, cur2), "nontrivial": True, "labels": labels, "outcome": "judged"}
            v = judge("rename", verdict, status, cur2)
            if v:
                return {"viol": v, "nontrivial": True, "labels": labels, "outcome": "judged"}
            cur = cur2
        cp = cur.copy()
        v = judge("copy", verdict, "ok", cp)
        return {"viol": v, "nontrivial": True, "labels": labels, "outcome": "judged"}
    # C02: quotient of free cases only (built dividends go through compose first)
    if cs["mode"] != "free":
        return {"viol": None, "nontrivial": False, "labels": labels + ["skipped-built"], "outcome": "skipped"}
    s1, top = env.call("construct", env.C, cs["c"])
    s2, div = env.call("construct", env.C, cs["c1"])
    if s1 != "ok" or s2 != "ok":
        return {"viol": None, "nontrivial": False, "labels": labels, "outcome": "construction-refused"}
    dt, dd = env.c_data(top), env.c_data(div)
    allowed = list(dict.fromkeys(dt["i"] + dd["o"]))
    addl = [v for v, pick in zip(allowed + ["zz"], cs["addl_pick"]) if pick][:2]
    verdict = model.quotient_iface(dt["i"], dt["o"], dd["i"], dd["o"], addl)
    status, res = env.call("quotient", top.quotient, div, [env.Var(v) for v in addl])
    if status == "refused" and verdict[0] == "ok":
        return {"viol": None, "nontrivial": False, "labels": labels + ["elimination-refused"], "outcome": "refused"}
    return {"viol": judge("quotient", verdict, status, res), "nontrivial": True, "labels": labels, "outcome": "judged"}


def run_case(case):
    return _run_enum(case) if case["src"] == "enum" else _run_poly(case)
