"""C07  Simplification never changes meaning and leaves nothing redundant."""
from fractions import Fraction as F

from hypothesis import strategies as st

from pv import env, exact, gens

ID = "C07"
LEVEL = "exploration"
N = {"quick": 1400, "thorough": 8000}
RULE = ("cases = (constraint list, context|None) or a contract to build/simplify, <=6 terms over <=5 variables, with planted "
        "redundancy (duplicates, scalings, positive combinations, loosened copies, terms implied only via the context), tight "
        "and nearly-tight margins, infeasible systems, variable-free terms (satisfied / violated), -1/-2 twins across list and context, "
        "badly scaled families on which the solver's first answer is not optimal; number classes small-integer/dyadic, decimal, wide-magnitude; "
        "non-trivial = the call returned and (a redundancy was planted or a term was actually removed); distinct = SHA-1 of the case")
ASSUMPTIONS = ["a remaining constraint counts as droppable only if the others (with the context) imply it with margin 1e-4*(1+|c|) over all reals",
               "a ValueError counts as wrong only if the system stays feasible when every constant is tightened by 1e-4*(1+|c|)"]

P = gens.NAMES[:5]


def _sig4(x):
    return float("%.4g" % x)


@st.composite
def _num_term(draw, pool, w, numclass):
    if numclass == "small":
        return draw(gens.term_s(pool, w))
    k = draw(st.integers(1, min(3, len(pool))))
    vs = draw(st.lists(st.sampled_from(pool), min_size=k, max_size=k, unique=True))
    if numclass == "decimal":
        co = {v: _sig4(draw(st.floats(0.01, 1000)) * draw(st.sampled_from([1, -1]))) for v in vs}
    else:
        co = {v: _sig4(10 ** draw(st.floats(-3, 6)) * draw(st.sampled_from([1, -1]))) for v in vs}
    c = gens.dot(co, w) + (draw(st.sampled_from([0, 1, 2, 5])) if numclass == "decimal" else abs(gens.dot(co, w)) * draw(st.sampled_from([0, 0.001, 0.1])) + draw(st.sampled_from([0, 1])))
    return [co, float(c)]


def _combo(draw, src, extra_slack):
    co, c = {}, 0.0
    for t in src:
        m = draw(st.sampled_from([0, 1, 1, 2, 0.5]))
        for k, v in t[0].items():
            co[k] = co.get(k, 0) + m * v
        c += m * t[1]
    co = {k: v for k, v in co.items() if v != 0}
    return [co, c + extra_slack] if co else None


@st.composite
def _ill_scaled(draw):
    """two or three badly scaled rows (coefficients of 1e4..1e6 next to ~1), no context: the family on which the LP solver's presolve
    misreports the status of the bounded redundancy test; none of the rows is redundant"""
    sg = lambda: draw(st.sampled_from([1, -1]))  # noqa: E731
    r1 = {"E1": sg() * draw(st.sampled_from([1.778, 2.5, 0.5, 3.0, 1.0])), "a": sg() * draw(st.sampled_from([1e5, 2e5, 1e4, 1e6]))}
    r2 = {"E1": sg() * draw(st.sampled_from([1e5, 1e4, 1e6])), "a": sg() * draw(st.sampled_from([1.0, 2.0, 0.5]))}
    k = draw(st.sampled_from([10.0, 1.0, 5.0, 0.0]))
    if k:
        r2["b"] = k
    cs = [draw(st.sampled_from([0.05, 0.5, 1.0, 0.0])) for _ in range(2)]
    terms = [[r1, cs[0]], [r2, cs[1]]]
    if draw(st.booleans()):
        terms.append([{"c": 1.0, "b": 1.0}, 10.0])
    return {"kind": "tl", "terms": terms, "ctx": None, "planted": ["ill-scaled"], "numclass": "wide"}


@st.composite
def _presolve_family(draw):
    """the family around the regression input of the presolve fix: one row mixing order-one coefficients with a tiny one, in a
    context that has the same direction without the tiny part and a row with a huge coefficient; on most members the solver's
    presolved first solve is not optimal, so the second-attempt logic is what answers. Signs of all three variables vary, so the
    feasible region lies in any orthant."""
    sa, sb, sc = (draw(st.sampled_from([1.0, -1.0])) for _ in range(3))
    eps = draw(st.sampled_from([0.001, 0.002, 2.0 ** -10]))
    big = draw(st.sampled_from([1e4, 2e4, 1e5]))
    terms = [[{"a": sa, "b": sb, "c": sc * eps}, 0.0]]
    ctx = [[{"a": sa}, float(draw(st.sampled_from([0, -1, -2, 1])))], [{"a": sa, "b": sb}, 0.0], [{"a": sa, "c": -sc * big}, 0.0]]
    if draw(st.booleans()):
        ctx.append([{"a": sa}, float(draw(st.sampled_from([-1, -3])))])
    if draw(st.integers(0, 3)) == 0:
        terms.append([{"b": sb}, float(draw(st.sampled_from([0, 1, 5])))])
    ctx = list(draw(st.permutations(ctx)))
    return {"kind": "tl", "terms": terms, "ctx": ctx, "planted": ["presolve-family"], "numclass": "wide"}


@st.composite
def _ctx_chain(draw):
    """few terms, each redundant only through a chain of 2-4 context terms over auxiliary variables"""
    pool = ["a", "b"]
    aux = ["c", "x", "y", "z"][:draw(st.integers(1, 3))]
    w = draw(gens.witness_s(pool + aux))
    terms, ctx = [], []
    v = draw(st.sampled_from(pool))
    sg = draw(st.sampled_from([1.0, -1.0]))
    chain = [v] + aux
    acc = 0.0
    for p_, q_ in zip(chain, chain[1:]):
        sl = float(draw(st.sampled_from([0, 1])))
        ctx.append([{p_: sg, q_: -sg}, sg * (w[p_] - w[q_]) + sl])
        acc += ctx[-1][1]
    last = chain[-1]
    sl = float(draw(st.sampled_from([0, 1, 2])))
    ctx.append([{last: sg}, sg * w[last] + sl])
    acc += ctx[-1][1]
    terms.append([{v: sg}, acc + draw(st.sampled_from([1.0, 2.0, 0.5]))])       # implied with margin through the whole chain
    if draw(st.booleans()):
        terms.append(draw(gens.term_s(pool, w)))
    ctx = list(draw(st.permutations(ctx)))
    terms = list(draw(st.permutations(terms)))
    return {"kind": "tl", "terms": terms, "ctx": ctx, "planted": ["ctx-chain"], "numclass": "small"}


@st.composite
def _tl_case(draw):
    if draw(st.integers(0, 7)) == 0:
        return draw(_ill_scaled())
    if draw(st.integers(0, 9)) == 0:
        return draw(_ctx_chain())
    if draw(st.integers(0, 11)) == 0:
        return draw(_presolve_family())
    nv = draw(st.integers(1, 5))
    pool = P[:nv]
    numclass = draw(st.sampled_from(["small", "small", "small", "decimal", "wide"]))
    w = draw(gens.witness_s(pool))
    base = [draw(_num_term(pool, w, numclass)) for _ in range(draw(st.integers(1, 4)))]
    with_ctx = draw(st.booleans())
    ctx = [draw(_num_term(pool, w, numclass)) for _ in range(draw(st.integers(1, 3)))] if with_ctx else None
    planted = []
    terms = list(base)
    for _ in range(draw(st.integers(0, 3))):
        if len(terms) >= 6:
            break
        kind = draw(st.sampled_from(["dup", "scale", "combo", "loose", "via-ctx", "nearly"]))
        src = draw(st.sampled_from(base))
        new = None
        if kind == "dup":
            new = [dict(src[0]), src[1]]
        elif kind == "scale":
            f = draw(st.sampled_from([2, 0.5, 4, 3]))
            new = [{k: v * f for k, v in src[0].items()}, src[1] * f]
        elif kind == "loose":
            new = [dict(src[0]), src[1] + draw(st.sampled_from([1, 2, 0.5]))]
        elif kind == "nearly":
            new = [dict(src[0]), src[1] + draw(st.sampled_from([1e-3, 1e-2, 2 ** -10]))]
        elif kind == "combo":
            new = _combo(draw, base, draw(st.sampled_from([0, 0, 1])))
        elif kind == "via-ctx" and ctx:
            new = _combo(draw, base + ctx, draw(st.sampled_from([0, 0, 1])))
        if new:
            planted.append(kind)
            terms.insert(draw(st.integers(0, len(terms))), new)
    infeasible = draw(st.integers(0, 7)) == 0
    if infeasible:
        src = draw(st.sampled_from(terms))
        mg = draw(st.sampled_from([1, 2, 0.5])) * (1 + abs(src[1]) if numclass == "wide" else 1)
        neg = [{k: -v for k, v in src[0].items()}, -src[1] - mg]
        if ctx is not None and draw(st.booleans()):
            ctx = ctx + [neg]
        else:
            terms.insert(draw(st.integers(0, len(terms))), neg)
        planted.append("infeasible")
    case = {"kind": "tl", "terms": terms[:7], "ctx": ctx, "planted": planted, "numclass": numclass}
    if numclass == "small" and draw(st.integers(0, 11)) == 0:
        # a satisfied constraint without variables (0 <= c), as left behind by eliminations / renamings that cancel every variable
        tgt = case["terms"] if (ctx is None or draw(st.booleans())) else case["ctx"]
        tgt.insert(draw(st.integers(0, len(tgt))), [{}, float(draw(st.sampled_from([0, 0, 1, 2])))])
        case["planted"] = planted + ["varfree-satisfied"]
    elif numclass == "small" and draw(st.integers(0, 11)) == 0:
        # a violated constraint without variables (0 <= -delta), optionally next to an unrelated large constant: the list is
        # unsatisfiable whatever else it says
        tgt = case["terms"] if (ctx is None or draw(st.booleans())) else case["ctx"]
        tgt.insert(draw(st.integers(0, len(tgt))), [{}, -float(draw(st.sampled_from([0.5, 1, 2 ** -10, 0.0005, 1e-3])))])
        if draw(st.booleans()):
            tgt.insert(draw(st.integers(0, len(tgt))), [{"q": float(draw(st.sampled_from([1, -1])))}, float(draw(st.sampled_from([1e3, 2e3, 1e4, 1e6])))])
        case["planted"] = planted + ["varfree-violated"]
    elif numclass == "small" and draw(st.integers(0, 9)) == 0:
        # twins that differ only by -1 versus -2 in one place (these two floats have the same hash in CPython): the looser one in
        # the context, the tighter one in the list
        src = draw(st.sampled_from(base))
        how = draw(st.integers(0, 2))
        if how == 0:
            v = draw(st.sampled_from(sorted(src[0])))
            loose, tight = [dict(src[0], **{v: -1.0}), src[1]], [dict(src[0], **{v: -2.0}), src[1]]
        elif how == 1:
            loose, tight = [dict(src[0]), -1.0], [dict(src[0]), -2.0]
        else:
            # ... or by a relative 9e-6 in one coefficient (equal under a tolerance-based comparison, not implied by each other)
            v = draw(st.sampled_from(sorted(src[0])))
            loose, tight = [dict(src[0]), src[1]], [dict(src[0], **{v: src[0][v] * (1 + draw(st.sampled_from([9e-6, -9e-6])))}), src[1]]
        if draw(st.integers(0, 3)) == 0:
            loose, tight = tight, loose
        case["ctx"] = (case["ctx"] or []) + [loose]
        case["terms"].insert(draw(st.integers(0, len(case["terms"]))), tight)
        case["terms"] = case["terms"][:7]
        case["planted"] = planted + ["hash-twin"]
    if draw(st.integers(0, 3)) == 0:
        case["prime"] = draw(st.sampled_from(["relax", "refine", "simplify"]))
    return case


@st.composite
def _contract_case(draw):
    ins = ["a", "b"][:draw(st.integers(1, 2))]
    outs = ["x", "y"][:draw(st.integers(1, 2))]
    w = draw(gens.witness_s(ins + outs))
    c = draw(gens.wild_contract_s(ins, outs, w, na=(0, 3), ng=(1, 4)))
    planted = []
    for _ in range(draw(st.integers(0, 2))):
        src = c["a"] + c["g"]
        new = _combo(draw, src, draw(st.sampled_from([0, 1])))
        if new:
            c["g"].insert(draw(st.integers(0, len(c["g"]))), new)
            planted.append("combo")
    if draw(st.integers(0, 2)) == 0 and len(ins) >= 2:
        # a guarantee that is redundant only through a chain of assumptions over an input the guarantees never mention
        x, y = ins[0], ins[1]
        o = outs[0]
        c["g"] = [t for t in c["g"] if y not in t[0]]
        hi = float(w[y] + draw(st.sampled_from([0, 1, 2])))
        c["a"] = c["a"] + [[{x: 1.0, y: -1.0}, float(w[x] - w[y] + draw(st.sampled_from([0, 1])))], [{y: 1.0}, hi]]
        ca = c["a"][-2][1]
        gb = float(w[o] - w[x] + draw(st.sampled_from([0, 1])))
        c["g"] = c["g"] + [[{o: 1.0, x: -1.0}, gb], [{o: 1.0}, gb + ca + hi + draw(st.sampled_from([1, 2, 0.5]))]]
        planted.append("chain-via-assumptions")
    return {"kind": "contract", "c": c, "planted": planted, "numclass": "small",
            "via": draw(st.sampled_from(["constructor", "simplify-method"]))}


def lp_hard_cases(entry):
    """simplification queries derived from one mined solver-hard system (satisfiable) under each of the 8 sign patterns: the first
    k rows are the context, the rest the list"""
    for signs in gens.LP_SIGNS:
        terms, w = gens.lp_hard_system(entry, signs)
        for k in range(len(terms)):
            yield {"kind": "tl", "terms": terms[k:], "ctx": terms[:k] or None, "planted": ["lp-hard"], "numclass": "wide", "src": entry.get("file")}


def enumerate_cases(tier):
    for e in gens.lp_hard_corpus():
        yield from lp_hard_cases(e)


def strategy(tier):
    return st.one_of(_tl_case(), _tl_case(), _tl_case(), _contract_case())


def _same_term(t, u):
    return {k: v for k, v in t[0].items() if v != 0} == {k: v for k, v in u[0].items() if v != 0} and abs(t[1] - u[1]) <= 1e-9 * (1 + abs(u[1]))


def _tight(terms):
    return ("and", [exact.le(t, -exact.tol(t)) for t in terms])


def ill_conditioned(terms):
    """coefficients spread over at least five orders of magnitude: the solver's 1e-7 tolerances are then amplified beyond the
    property's 1e-4 tolerance, so its verdicts on nearly redundant rows are not reliable"""
    mags = [abs(v) for t in terms for v in t[0].values() if v != 0]
    return bool(mags) and max(mags) / min(mags) >= 1e5


def check_simplified(inp, ctx, res, labels):
    """Shared oracle: `res` claims to be simplify(inp) in context ctx (plain data)."""
    v = _check_simplified(inp, ctx, res, labels)
    if v is not None:
        v["sig"]["ill_conditioned"] = ill_conditioned(inp + (ctx or []))
        if v["sig"]["kind"] == "lost-constraint":
            d = v["detail"]
            # marginal: the original term is exceeded by at most 1e-2*(1+|c|) (solver tolerances amplified by the coefficient spread)
            v["sig"]["marginal"] = bool(d["lhs_float"] - d["bound"] <= 1e-2 * (1 + abs(d["bound"])))
    return v


def _check_simplified(inp, ctx, res, labels):
    ctx = ctx or []
    for r in res:
        if not any(_same_term(r, t) for t in inp):
            return {"what": "returned term %s is not one of the original constraints" % r,
                    "sig": {"kind": "invented-term"}, "detail": {"result": res}}
    bad = exact.find_violation([exact.conj(ctx), exact.conj(res)], inp)
    if bad:
        big = abs(bad["term"][1]) >= 1e5
        return {"what": "simplified list with the context no longer implies original term %s" % bad["term"],
                "sig": {"kind": "lost-constraint", "large_constant": big}, "detail": dict(bad, result=res)}
    if exact.feasible([exact.conj(ctx), exact.conj(res)]):
        for i, r in enumerate(res):
            rest = res[:i] + res[i + 1:]
            if exact.implied([exact.conj(ctx), exact.conj(rest)], r, margin=-exact.tol(r)):
                return {"what": "returned term %s is still redundant (implied with margin by the others and the context)" % r,
                        "sig": {"kind": "redundant-left"}, "detail": {"result": res, "index": i}}
    return None


def run_case(case):
    labels = ["kind:" + case["kind"], "num:" + case["numclass"]] + ["planted:" + p for p in case["planted"]]
    if case["kind"] == "tl":
        terms, ctx = case["terms"], case["ctx"]
        tl = env.TL(terms)
        ctl = env.TL(ctx) if ctx is not None else None
        if case.get("prime"):
            # earlier calls on equal lists in an equal context (whose results are then modified) must not influence this one
            names = sorted({n for t in terms for n in t[0]})
            if names:
                p1, pc = env.TL(terms), (env.TL(ctx) if ctx is not None else env.TL([]))
                ev = [env.Var(names[0])]
                if case["prime"] == "simplify":
                    st0, r0 = env.call("simplify", p1.simplify, pc) if ctx is not None else env.call("simplify", p1.simplify)
                else:
                    fn = p1.elim_vars_by_relaxing if case["prime"] == "relax" else p1.elim_vars_by_refining
                    st0, r0 = env.call("elim", fn, pc, ev, True, None)
                    r0 = r0[0] if st0 == "ok" else r0
                if st0 == "ok":
                    del r0.terms[:]       # what a caller may do with a result it owns
                labels.append("primed:" + case["prime"])
        status, res = env.call("simplify", tl.simplify, ctl) if ctl is not None else env.call("simplify", tl.simplify)
        allc = terms + (ctx or [])
        if status == "refused":
            labels.append("raised")
            viol = None
            if exact.feasible([_tight(allc)], None, exact.BOX):
                viol = {"what": "simplify raised %s for a feasible system" % type(res).__name__,
                        "sig": {"kind": "raised-on-feasible", "numclass": case["numclass"], "ill_conditioned": ill_conditioned(allc)}, "detail": {"message": str(res)[:200]}}
            return {"viol": viol, "nontrivial": bool(case["planted"]), "labels": labels, "outcome": "raised"}
        rdata = env.tl_data(res)
        labels.append("removed-%d" % min(len(terms) - len(rdata), 3))
        viol = check_simplified(terms, ctx, rdata, labels)
        return {"viol": viol, "nontrivial": bool(case["planted"]) or len(rdata) < len(terms), "labels": labels, "outcome": "returned"}
    c = case["c"]
    if case["via"] == "constructor":
        status, obj = env.call("construct", env.C, c, True)
    else:
        status, obj = env.call("construct", env.C, c, False)
        if status == "ok":
            status, r2 = env.call("IoContract.simplify", obj.simplify)
            if status != "ok":
                obj = r2
    if status == "refused":
        viol = None
        if exact.feasible([_tight(c["a"] + c["g"])], None, exact.BOX):
            viol = {"what": "contract construction/simplify raised %s for a satisfiable contract" % type(obj).__name__,
                    "sig": {"kind": "raised-on-feasible", "numclass": "small"}, "detail": {"message": str(obj)[:200]}}
        return {"viol": viol, "nontrivial": False, "labels": labels + ["raised"], "outcome": "raised"}
    d = env.c_data(obj)
    viol = None
    if not all(any(_same_term(r, t) for t in c["a"]) for r in d["a"]) or len(d["a"]) != len(c["a"]):
        viol = {"what": "assumptions changed by construction", "sig": {"kind": "assumptions-changed"}, "detail": {"built": d}}
    if viol is None:
        viol = check_simplified(c["g"], c["a"], d["g"], labels)
    return {"viol": viol, "nontrivial": bool(case["planted"]) or len(d["g"]) < len(c["g"]), "labels": labels, "outcome": "returned"}
