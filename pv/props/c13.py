"""C13  Operations are pure: operands unchanged, results independent of history."""
import atexit
import copy as _copy
import json

from hypothesis import strategies as st

from pv import env, gens

ID = "C13"
LEVEL = "exploration"
N = {"quick": 60, "thorough": 450}
BUDGET_S = {"quick": 170, "thorough": 45 * 60}
RULE = ("cases = histories of up to 30 (quick: 14) operations drawn from compose / compose_tactics, quotient, merge, refines, rename, copy, "
        "term-list simplify, elimination by refining / relaxing, optimize / bounds, to/from dict, to/from strings, parsing, "
        "contains_behavior, is_empty and | - & on a shared pool of contracts and term lists whose results are fed back into the pool; "
        "after every step: (1) deep snapshots of every pool member, of every mutable argument and of the module-level tactic tables are "
        "unchanged, also when the step raised; (2) the result is serialised, then mutated in place, and the pool must still be unchanged "
        "(aliasing); (3) the same call on operands rebuilt from their snapshots gives an equal result or the same exception type; (4) the "
        "same call executed in a freshly forked interpreter that has only imported pacti gives the same result; non-trivial = the history "
        "contains a compose / quotient / merge / elimination that returned and a later step that re-used one of its operands or its "
        "result; distinct = SHA-1 of the case")
ASSUMPTIONS = ["get_terms_with_vars, the raw PolyhedralTermList(list) constructor, attribute access (.a, .g) and IoContract.simplify() "
               "(documented to update the contract in place) are not part of the property's operation list and are not rules"]

STRINGS = ["x <= 1", "2x + 3y <= 6", "|x - y| <= 2", "x = 3", "-x <= 0", "1 <= x <= 2", "x + y >= -1", "2(x + y) <= 4", "|x| + |y| <= 3", "0.5 x - y <= (1/2)"]
OPS_C = ["compose", "compose_tactics", "quotient", "merge", "refines", "rename", "rename_list", "copy", "optimize", "bounds",
         "dict_roundtrip", "str_roundtrip", "compose_tactics", "quotient_tactics", "construct"]
OPS_T = ["tl_simplify", "elim_refine", "elim_relax", "tl_refines", "is_empty", "contains", "tl_or", "tl_sub", "tl_and", "tl_copy", "parse"]


@st.composite
def _case(draw, maxlen):
    pairs = [draw(gens.contract_pair_s()) for _ in range(draw(st.integers(1, 2)))]
    contracts = []
    for p in pairs:
        contracts += [p["c1"], p["c2"]]
    pool_names = sorted({n for c in contracts for n in c["i"] + c["o"]})
    w = draw(gens.witness_s(pool_names))
    tls = [draw(gens.termlist_s(pool_names[:4], w, 1, 3)) for _ in range(2)]
    ops = []
    for _ in range(draw(st.integers(max(3, maxlen // 2), maxlen))):
        kind = draw(st.sampled_from(OPS_C + OPS_C + OPS_T))
        op = {"op": kind, "i": draw(st.integers(0, 11)), "j": draw(st.integers(0, 11)), "simplify": draw(st.booleans()),
              "order": draw(gens.order_s()), "flag": draw(st.booleans()), "pick": draw(st.integers(0, 5)),
              "string": draw(st.sampled_from(STRINGS)), "vals": [float(draw(st.integers(-3, 3))) for _ in range(3)]}
        ops.append(op)
    return {"contracts": contracts, "tls": tls, "ops": ops}


def strategy(tier):
    return _case(14 if tier == "quick" else 30)


# ---------------------------------------------------------------- snapshots / rebuilding
def snap(obj):
    """deep, order-preserving, exact snapshot as JSON-able data"""
    if isinstance(obj, env.PolyhedralIoContract):
        return {"T": "C", "i": [v.name for v in obj.inputvars], "o": [v.name for v in obj.outputvars], "a": snap(obj.a)["t"], "g": snap(obj.g)["t"]}
    if isinstance(obj, env.PolyhedralTermList):
        return {"T": "TL", "t": [[[[v.name, repr(float(a))] for v, a in t.variables.items()], repr(float(t.constant))] for t in obj.terms]}
    if isinstance(obj, env.PolyhedralTerm):
        return {"T": "T", "t": [[[v.name, repr(float(a))] for v, a in obj.variables.items()], repr(float(obj.constant))]}
    if isinstance(obj, env.Var):
        return {"T": "V", "n": obj.name}
    if isinstance(obj, (list, tuple)):
        return [snap(x) for x in obj]
    if isinstance(obj, dict):
        return {"T": "D", "items": [[snap(k) if not isinstance(k, str) else k, snap(v)] for k, v in obj.items()]}
    if isinstance(obj, float):
        return repr(obj)
    if obj is None or isinstance(obj, (bool, int, str)):
        return obj
    return repr(obj)


def unsnap(s):
    if isinstance(s, dict) and s.get("T") == "C":
        return env.PolyhedralIoContract(unsnap({"T": "TL", "t": s["a"]}), unsnap({"T": "TL", "t": s["g"]}),
                                        [env.Var(v) for v in s["i"]], [env.Var(v) for v in s["o"]], simplify=False)
    if isinstance(s, dict) and s.get("T") == "TL":
        return env.PolyhedralTermList([env.PolyhedralTerm({env.Var(n): float(a) for n, a in t[0]}, float(t[1])) for t in s["t"]])
    raise ValueError("cannot rebuild %r" % (s,))


def result_data(r):
    """order-insensitive inside a term (dict of coefficients), order-sensitive elsewhere; statistics (timings) dropped"""
    if isinstance(r, tuple) and len(r) == 2 and isinstance(r[0], (env.PolyhedralIoContract, env.PolyhedralTermList)):
        r = r[0]     # (result, tactic statistics): timings are not part of the result
    if isinstance(r, env.PolyhedralIoContract):
        return {"C": [[v.name for v in r.inputvars], [v.name for v in r.outputvars], result_data(r.a), result_data(r.g)]}
    if isinstance(r, env.PolyhedralTermList):
        return {"TL": [[sorted([v.name, repr(float(a))] for v, a in t.variables.items()), repr(float(t.constant))] for t in r.terms]}
    if isinstance(r, env.PolyhedralTerm):
        return result_data(env.PolyhedralTermList([r]))
    if isinstance(r, (list, tuple)):
        return [result_data(x) for x in r]
    if isinstance(r, dict):
        return {str(k): result_data(v) for k, v in r.items()}
    if isinstance(r, float):
        return repr(r)
    return r if (r is None or isinstance(r, (bool, int, str))) else repr(r)


# ---------------------------------------------------------------- the operation interpreter
def plan(op, nC, nT):
    """which pool members an op uses: returns (kind, [contract indices], [termlist indices])"""
    k = op["op"]
    if k in OPS_C:
        two = k in ("compose", "compose_tactics", "quotient", "quotient_tactics", "merge", "refines")
        return "C", ([op["i"] % nC, op["j"] % nC] if two else [op["i"] % nC]), []
    two = k in ("tl_simplify", "elim_refine", "elim_relax", "tl_refines", "tl_or", "tl_sub", "tl_and")
    return "T", [], ([op["i"] % nT, op["j"] % nT] if two else [op["i"] % nT])


def make_args(op, cs, ts):
    """mutable arguments built from plain data (fresh for every execution)"""
    k = op["op"]
    a = {}
    if k in ("compose", "compose_tactics"):
        outs = [v.name for c in cs for v in c.outputvars]
        a["keep"] = [outs[op["pick"] % len(outs)]] if (op["flag"] and outs) else []
        a["order"] = None if op["order"] is None else list(op["order"])
    elif k in ("quotient", "quotient_tactics"):
        cand = [v.name for v in cs[0].inputvars] + [v.name for v in cs[1].outputvars]
        a["addl"] = [env.Var(cand[op["pick"] % len(cand)])] if (op["flag"] and cand) else []
        a["order"] = None if op["order"] is None else list(op["order"])
    elif k in ("rename", "rename_list"):
        names = [v.name for v in cs[0].inputvars + cs[0].outputvars]
        s = names[op["pick"] % len(names)] if names else "x"
        t = names[(op["pick"] + 1 + op["j"]) % len(names)] if (op["flag"] and names) else "fresh%d" % (op["j"] % 3)
        a["maps"] = [(s, "tmp_"), ("tmp_", t)] if k == "rename_list" else [(s, t)]
    elif k in ("elim_refine", "elim_relax"):
        vs = [v.name for v in ts[0].vars] or ["x"]
        a["elim"] = [env.Var(vs[op["pick"] % len(vs)])] + ([env.Var(vs[(op["pick"] + 1) % len(vs)])] if op["flag"] and len(vs) > 1 else [])
        a["order"] = None if op["order"] is None else list(op["order"])
    elif k == "contains":
        vs = [v.name for v in ts[0].vars]
        a["beh"] = {env.Var(v): op["vals"][n % 3] for n, v in enumerate(vs)}
    elif k in ("optimize", "bounds"):
        names = [v.name for v in cs[0].inputvars + cs[0].outputvars] or ["x"]
        a["var"] = names[op["pick"] % len(names)]
    return a


def execute(op, cs, ts, args):
    k = op["op"]
    if k == "compose":
        return cs[0].compose(cs[1], args["keep"], op["simplify"])
    if k == "compose_tactics":
        return cs[0].compose_tactics(cs[1], args["keep"], op["simplify"], args["order"])
    if k == "quotient":
        return cs[0].quotient(cs[1], args["addl"], op["simplify"])
    if k == "quotient_tactics":
        return cs[0].quotient_tactics(cs[1], args["addl"], op["simplify"], args["order"])
    if k == "merge":
        return cs[0].merge(cs[1])
    if k == "refines":
        return cs[0].refines(cs[1]) if op["flag"] else (cs[0] <= cs[1])
    if k == "rename":
        s, t = args["maps"][0]
        return cs[0].rename_variable(env.Var(s), env.Var(t))
    if k == "rename_list":
        return cs[0].rename_variables(args["maps"])
    if k == "copy":
        return cs[0].copy()
    if k == "construct":
        # the public constructor called on the parts of an existing contract: it must take defensive copies
        return type(cs[0])(cs[0].a, cs[0].g, cs[0].inputvars, cs[0].outputvars, op["simplify"])
    if k == "optimize":
        return cs[0].optimize(args["var"], op["flag"])
    if k == "bounds":
        return cs[0].get_variable_bounds(args["var"])
    if k == "dict_roundtrip":
        d = cs[0].to_machine_dict()
        return [d, env.PolyhedralIoContract.from_dict(d, simplify=op["simplify"])]
    if k == "str_roundtrip":
        d = cs[0].to_dict()
        return [d, env.PolyhedralIoContract.from_strings(**d, simplify=op["simplify"])]
    if k == "tl_simplify":
        return ts[0].simplify(ts[1]) if op["flag"] else ts[0].simplify()
    if k == "elim_refine":
        return ts[0].elim_vars_by_refining(ts[1], args["elim"], op["simplify"], args["order"])
    if k == "elim_relax":
        return ts[0].elim_vars_by_relaxing(ts[1], args["elim"], op["simplify"], args["order"])
    if k == "tl_refines":
        return ts[0].refines(ts[1]) if op["flag"] else (ts[0] <= ts[1])
    if k == "is_empty":
        return ts[0].is_empty()
    if k == "contains":
        return ts[0].contains_behavior(args["beh"])
    if k == "tl_or":
        return ts[0] | ts[1]
    if k == "tl_sub":
        return ts[0] - ts[1]
    if k == "tl_and":
        return ts[0] & ts[1]
    if k == "tl_copy":
        return ts[0].copy()
    if k == "parse":
        return env.PolyhedralTermList(env.serializer.polyhedral_termlist_from_string(op["string"]))
    raise ValueError("unknown op " + k)


DOC = (ValueError, env.PolyhedralSyntaxException, env.PolyhedralSyntaxConvexException, env.FileDataFormatError)


def run_op(op, cs, ts, args):
    """-> ('ok', result) | ('exc', type name); undocumented exception types are reported as Undocumented"""
    try:
        return "ok", execute(op, cs, ts, args)
    except DOC as e:
        return "exc", type(e).__name__
    except Exception as e:  # noqa: B902
        raise env.Undocumented(e, op["op"]) from e


def execute_on_data(op, operands):
    """used by the fork server and by the in-session repetition: rebuild operands from snapshots and run"""
    cs = [unsnap(s) for s in operands["c"]]
    ts = [unsnap(s) for s in operands["t"]]
    args = make_args(op, cs, ts)
    try:
        st_, r = run_op(op, cs, ts, args)
    except env.Undocumented as u:
        return {"status": "undocumented", "type": type(u.exc).__name__}
    return {"status": st_, "result": result_data(r) if st_ == "ok" else r}


def scramble(r):
    """mutate a result in place as a careless caller could"""
    if isinstance(r, tuple) and r and isinstance(r[0], (env.PolyhedralIoContract, env.PolyhedralTermList)):
        for x in r:
            scramble(x)
        return
    if isinstance(r, env.PolyhedralIoContract):
        scramble(r.a)
        scramble(r.g)
        r.inputvars.append(env.Var("zz_in"))
        r.outputvars[:] = [env.Var("zz_out")]
    elif isinstance(r, env.PolyhedralTermList):
        for t in r.terms:
            for v in list(t.variables):
                t.variables[v] = t.variables[v] * 3 + 1
            t.variables[env.Var("zz")] = 9.0
            t.constant = t.constant + 7
        r.terms.append(env.PolyhedralTerm({env.Var("zz"): 1.0}, 0.0))
    elif isinstance(r, list):
        for x in r:
            scramble(x)
        r.append("zz")
    elif isinstance(r, dict):
        for k in list(r):
            scramble(r[k])
        r["zz"] = 1


def module_state():
    from pacti.contracts import polyhedral_iocontract as pic
    from pacti.terms.polyhedra import polyhedra as ph
    return {"ph.TACTICS_ORDER": list(ph.TACTICS_ORDER), "pic.TACTICS_ORDER": list(pic.TACTICS_ORDER),
            "TACTICS": sorted(env.PolyhedralTermList.TACTICS.keys()), "TACTICS_ids": [id(f) for _, f in sorted(env.PolyhedralTermList.TACTICS.items())]}


_client = [None]


def client():
    if _client[0] is None:
        from pv.forksrv import Client
        _client[0] = Client()
        atexit.register(_client[0].close)
    return _client[0]


def run_case(case):
    labels = []
    try:
        C = [env.C(c) for c in case["contracts"]]
    except ValueError:
        return {"viol": None, "nontrivial": False, "labels": ["construction-refused"], "outcome": "construction-refused"}
    T = [env.TL(t) for t in case["tls"]]
    produced = set()       # pool indices (kind, idx) of results of composing-type steps and of their operands
    reused = False
    viol = None
    nsteps = 0
    for step, op in enumerate(case["ops"]):
        kind, ci, ti = plan(op, len(C), len(T))
        cs = [C[i] for i in ci]
        ts = [T[i] for i in ti]
        if any(("C", i) in produced for i in ci) or any(("T", i) in produced for i in ti):
            reused = True
        args = make_args(op, cs, ts)
        before_pool = [snap(x) for x in C] + [snap(x) for x in T]
        before_args = snap(args)
        before_mod = module_state()
        operand_snaps = {"c": [snap(x) for x in cs], "t": [snap(x) for x in ts]}
        status, r = run_op(op, cs, ts, args)
        nsteps += 1
        labels.append("op:" + op["op"])
        what = None
        if [snap(x) for x in C] + [snap(x) for x in T] != before_pool:
            what, sigk = "a pool member was modified by %s (%s)" % (op["op"], "returned" if status == "ok" else "raised " + str(r)), "operand-modified"
        elif snap(args) != before_args:
            what, sigk = "an argument list/dict passed to %s was modified" % op["op"], "argument-modified"
        elif module_state() != before_mod:
            what, sigk = "module-level tactic tables changed during %s" % op["op"], "module-state-modified"
        if what is None and status == "ok":
            data = result_data(r)
            keep = _copy.deepcopy(r) if not isinstance(r, (bool, int, float, str, type(None))) else r
            scramble(r)
            if [snap(x) for x in C] + [snap(x) for x in T] != before_pool:
                what, sigk = "the result of %s shares mutable state with an operand (mutating the result changed a pool member)" % op["op"], "result-aliases-operand"
            elif module_state() != before_mod:
                what, sigk = "the result of %s shares mutable state with module-level tables" % op["op"], "module-state-modified"
            r = keep
        if what is None:
            again = execute_on_data(op, operand_snaps)
            mine = {"status": status, "result": result_data(r) if status == "ok" else r}
            if again != mine:
                what, sigk = "repeating %s on equal operands in the same session gave a different result" % op["op"], "not-repeatable"
            else:
                fresh = client().run(op, operand_snaps)
                if "harness_error" in fresh:
                    raise RuntimeError("fork server: " + fresh["harness_error"])
                if fresh != mine:
                    what, sigk = "%s gives a different result in a fresh interpreter than after this history" % op["op"], "history-dependent"
        if what:
            viol = {"what": what + " at step %d" % step, "sig": {"kind": sigk, "op": op["op"]}, "detail": {"step": step, "op": op}}
            break
        if status == "ok":
            res = r[0] if isinstance(r, tuple) else (r[1] if isinstance(r, list) and len(r) == 2 and isinstance(r[1], env.PolyhedralIoContract) else r)
            composing = op["op"] in ("compose", "compose_tactics", "quotient", "quotient_tactics", "merge", "elim_refine", "elim_relax")
            if isinstance(res, env.PolyhedralIoContract):
                if len(C) < 12:
                    C.append(res)
                    if composing:
                        produced.add(("C", len(C) - 1))
            elif isinstance(res, env.PolyhedralTermList):
                if len(T) < 12:
                    T.append(res)
                    if composing:
                        produced.add(("T", len(T) - 1))
            if composing:
                produced.update(("C", i) for i in ci)
                produced.update(("T", i) for i in ti)
            labels.append("returned:" + op["op"])
    return {"viol": viol, "nontrivial": bool(produced) and reused, "labels": sorted(set(labels)) + ["steps:%d" % min(nsteps // 5 * 5, 30)],
            "outcome": "history-checked"}
