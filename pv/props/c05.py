"""C05  Algebra layer is sound for any constraint domain meeting the primitive specs."""
import itertools

from hypothesis import strategies as st

from pv import env, finite

ID = "C05"
LEVEL = "exploration"
N = {"quick": 3500, "thorough": 60000}
RULE = ("cases = (roles of <=5 variables in each of two contracts in {absent,input,output}, extensional predicates as assumption / "
        "guarantee terms over domain {0,1} (thorough: also {0,1,2} over <=3 variables), operation compose|quotient|merge with kept "
        "variables / additional inputs, and a tape of integers that decides every nondeterministic outcome of the stub primitives: exact / "
        "strengthened-or-weakened / leftover / ValueError for eliminations, sub-list choice or ValueError for simplify, True/False for "
        "refines); the generic IoContract code is run over this stub and the obligations of C01 / C02 / C08 are decided by enumerating "
        "all valuations (no tolerance, no solver); non-trivial = the operation returned, at least one primitive call eliminated a "
        "variable, and the result is not true/true; distinct = SHA-1 of the case")
ASSUMPTIONS = ["the stub checks its own documented contract by truth table on every primitive call (a stub bug is a harness error)"]
ROLES = "-io"


@st.composite
def _terms(draw, pool, nmax, dom):
    if not pool:
        return []
    out = []
    for _ in range(draw(st.integers(0, nmax))):
        k = draw(st.integers(1, min(3, len(pool))))
        sup = draw(st.lists(st.sampled_from(pool), min_size=k, max_size=k, unique=True))
        nt = dom ** k
        bits = [draw(st.integers(0, 9)) < 7 for _ in range(nt)]
        out.append([sup, sum(1 << i for i, b in enumerate(bits) if b)])
    return out


@st.composite
def _case(draw, dom=2, nvmax=5):
    nv = draw(st.integers(2, nvmax))
    names = ["a", "b", "c", "d", "e"][:nv]
    conn = draw(st.sampled_from(["random", "cascade", "cascade", "feedback", "shared"]))
    r1 = [draw(st.sampled_from(ROLES)) for _ in names]
    r2 = [draw(st.sampled_from(ROLES)) for _ in names]
    if conn in ("cascade", "feedback"):
        r1[0], r2[0] = "o", "i"
        if conn == "feedback":
            r1[1], r2[1] = "i", "o"
    elif conn == "shared":
        r1[0], r2[0] = "i", "i"
    op = draw(st.sampled_from(["compose", "compose", "quotient", "quotient", "merge"]))
    if op == "quotient" and draw(st.booleans()):
        # a dividend that looks like a composition: outputs of both, inputs of the divisor
        r1 = ["o" if b == "o" or a == "o" else a for a, b in zip(r1, r2)]
    if draw(st.integers(0, 6)) > 0:
        # mostly admissible topologies (the inadmissible ones are C06's business)
        for k in range(nv):
            if op in ("compose", "merge") and r1[k] == "o" and r2[k] == "o":
                r2[k] = draw(st.sampled_from("-i")) if op == "compose" else "o"
            if op == "merge" and {r1[k], r2[k]} == {"i", "o"}:
                r2[k] = r1[k]
            if op == "quotient" and r1[k] == "o" and r2[k] == "i":
                r2[k] = "o"
    i1 = [v for v, r in zip(names, r1) if r == "i"]
    o1 = [v for v, r in zip(names, r1) if r == "o"]
    i2 = [v for v, r in zip(names, r2) if r == "i"]
    o2 = [v for v, r in zip(names, r2) if r == "o"]
    c1 = {"a": draw(_terms(i1, 2, dom)), "g": draw(_terms(i1 + o1, 3, dom)), "i": i1, "o": o1}
    c2 = {"a": draw(_terms(i2, 2, dom)), "g": draw(_terms(i2 + o2, 3, dom)), "i": i2, "o": o2}
    if conn == "feedback" and draw(st.integers(0, 3)) > 0:
        c1["a"] = [t for t in c1["a"] if not set(t[0]) & set(o2)]
        c2["a"] = [t for t in c2["a"] if not set(t[0]) & set(o1)]
    keep = [v for v in o1 + o2 if draw(st.integers(0, 4)) == 0]
    addl = [v for v in dict.fromkeys(o2 + i1) if draw(st.integers(0, 5)) == 0]
    tape = draw(st.lists(st.integers(0, 23), min_size=0, max_size=40))
    return {"names": names, "dom": dom, "c1": c1, "c2": c2, "op": op, "keep": keep, "addl": addl, "tape": tape,
            "simplify": draw(st.booleans()), "conn": conn}


def strategy(tier):
    if tier == "thorough":
        return st.one_of(_case(), _case(), _case(), _case(dom=3, nvmax=3))
    return _case()


def run_case(case):
    names = case["names"]
    finite.World.reset(names, case["tape"], "nondet", tuple(range(case["dom"])))
    labels = ["op:" + case["op"], "conn:" + case["conn"], "dom:%d" % case["dom"]]
    try:
        c1 = finite.contract_from(case["c1"], case["simplify"])
        c2 = finite.contract_from(case["c2"], case["simplify"])
    except ValueError:
        return {"viol": None, "nontrivial": False, "labels": labels + ["construction-refused"], "outcome": "construction-refused"}
    op = case["op"]
    V = env.Var
    if op == "compose":
        status, res = env.call("compose_tactics", c1.compose_tactics, c2, [V(v) for v in case["keep"]], case["simplify"], [])
    elif op == "quotient":
        status, res = env.call("quotient_tactics", c1.quotient_tactics, c2, [V(v) for v in case["addl"]], case["simplify"], [])
    else:
        status, res = env.call("merge", c1.merge, c2)
        res = (res, []) if status == "ok" else res
    trace = list(finite.World.log)
    labels.append("primitive-failure:%s" % any(t in ("elim-raise", "simplify-raise") and v in (7, 6) for t, v in trace))
    if status == "refused":
        return {"viol": None, "nontrivial": False, "labels": labels + ["refused:" + type(res).__name__], "outcome": "refused"}
    c = res[0]
    viol = None
    sem = finite.sem
    for v in finite.valuations():
        A1, G1, A2, G2 = sem(c1.a.terms, v), sem(c1.g.terms, v), sem(c2.a.terms, v), sem(c2.g.terms, v)
        A, G = sem(c.a.terms, v), sem(c.g.terms, v)
        bad = None
        if op == "compose":
            if A and (not A1 or G1) and (not A2 or G2) and not (A1 and A2 and G):
                bad = "A1" if not A1 else "A2" if not A2 else "G"
        elif op == "quotient":
            if A1 and (not A2 or G2) and (not A or G) and not (A2 and A and G1):
                bad = "A-divisor" if not A2 else "A-quotient" if not A else "G-dividend"
        else:
            if A != (A1 and A2):
                bad = "assumptions"
            elif (A and G) != (A1 and A2 and G1 and G2):
                bad = "guarantees"
        if bad:
            viol = {"what": "generic %s over the stub theory violates its obligation (%s) at valuation %s" % (op, bad, v),
                    "sig": {"kind": "algebra-unsound", "op": op, "obligation": bad},
                    "detail": {"valuation": v, "result": str(c), "first": str(c1), "second": str(c2), "primitive_trace": trace}}
            break
    trivial_result = not c.a.terms and not c.g.terms
    nontrivial = finite.World.eliminated > 0 and not trivial_result
    labels.append("eliminated:%s" % (finite.World.eliminated > 0))
    return {"viol": viol, "nontrivial": nontrivial, "labels": labels, "outcome": "returned"}
