"""C02  Quotient composed with the divisor refines the dividend."""
from hypothesis import strategies as st

from pv import env, exact, gens
from pv.props import c01

ID = "C02"
LEVEL = "exploration"
N = {"quick": 450, "thorough": 4000}
RULE = ("cases = (dividend C, divisor C1, additional_inputs, simplify, tactics_order); dividends are 'built' (C = C1 composed with a "
        "hidden partner, then optionally weakened) or 'free' (random contract with overlapping interface, assumptions that do or do not "
        "contain the divisor's); oracle: A_C and (A1+ => G1) and (A_Q+ => G_Q) must imply every term of A1, A_Q and G_C; non-trivial = "
        "quotient returned, Q has at least one guarantee or assumption term, and the hypotheses are satisfiable in the box; distinct = SHA-1")
ASSUMPTIONS = ["operands are the contracts as constructed; for 'built' dividends the composition is computed by the code under test and "
               "only serves as an input"]


@st.composite
def _built(draw):
    base = draw(c01.compose_case_s(["cascade12", "cascade21", "mixed", "shared_in", "cascade12"]))
    base["keep"] = [v for v in base["keep"]]
    weaken = draw(st.sampled_from(["none", "none", "loosen-g", "add-a"]))
    return {"mode": "built", "pair": base, "divisor": draw(st.sampled_from(["first", "second"])), "weaken": weaken,
            "loosen": draw(st.sampled_from([0.5, 1, 2])), "addl_pick": draw(st.lists(st.booleans(), min_size=6, max_size=6)),
            "simplify": draw(st.sampled_from([True, True, False])), "order": draw(gens.order_s())}


@st.composite
def _kay(draw):
    """dividend = a contract whose guarantee mentions all outputs of the divisor at once; divisor = producer with coupled rows"""
    pr = draw(gens.kaykobad_pair_s())
    p, q, w = pr["c1"], pr["c2"], pr["witness"]
    if draw(st.booleans()):
        # the dividend produces the divisor's outputs from an input of its own: the quotient has to produce the divisor's inputs
        term = [dict(q["g"][0][0]), q["g"][0][1]]
        c = {"a": [[{"z": 1.0}, float(w["z"] + 3)]] if draw(st.booleans()) else [], "g": [term], "i": ["z"], "o": list(p["o"])}
    else:
        # the dividend sees the divisor's inputs as inputs and produces the divisor's outputs and z
        c = {"a": [list(t) for t in p["a"]], "g": [list(t) for t in q["g"]] + ([list(t) for t in p["g"]] if draw(st.integers(0, 2)) == 0 else []),
             "i": list(p["i"]), "o": list(p["o"]) + ["z"]}
    return {"mode": "free", "c": c, "c1": p, "rel": "kaykobad", "addl_pick": draw(st.lists(st.booleans(), min_size=6, max_size=6)),
            "simplify": draw(st.sampled_from([True, True, False])), "order": draw(st.sampled_from([None, None, [1], [1, 2, 3, 4, 5], [3, 1]]))}


@st.composite
def _free(draw):
    i1 = ["a", "b"][:draw(st.integers(1, 2))]
    o1 = ["m", "n"][:draw(st.integers(1, 2))]
    ci = draw(st.lists(st.sampled_from(["a", "b", "c"]), min_size=1, max_size=3, unique=True))
    co = draw(st.lists(st.sampled_from(["m", "n", "x", "y"]), min_size=1, max_size=3, unique=True))
    names = sorted(set(i1 + o1 + ci + co))
    w = draw(gens.witness_s(names))
    mk = draw(st.sampled_from([gens.structured_contract_s, gens.wild_contract_s, gens.coupled_contract_s, gens.coupled_contract_s]))
    c1 = draw(mk(i1, o1, w))
    c = draw(draw(st.sampled_from([gens.structured_contract_s, gens.wild_contract_s, gens.coupled_contract_s]))(ci, co, w))
    shared = [v for v in o1 if v in co] + [v for v in i1 if v in ci]
    if len(shared) >= 2 and draw(st.integers(0, 2)) > 0:
        # a dividend guarantee that mentions several variables shared with the divisor at once
        k = draw(st.integers(2, len(shared)))
        cf = {v: draw(gens.coef_s()) for v in shared[:k]}
        rest = [v for v in ci + co if v not in shared]
        if rest:
            cf[draw(st.sampled_from(rest))] = draw(st.sampled_from([1, -1, 2]))
        if all(v in ci + co for v in cf):
            c = dict(c, g=c["g"] + [[cf, float(gens.dot(cf, w) + draw(st.sampled_from(gens.SLACKS)))]])
    rel = draw(st.sampled_from(["implies", "implies", "independent", "conflict"]))
    if rel == "implies":
        extra = [t for t in c1["a"] if set(t[0]) <= set(ci)]
        c = dict(c, a=c["a"] + extra if len(extra) == len(c1["a"]) else c["a"])
    elif rel == "conflict":
        # the two sets of assumptions contradict each other on a shared input: no quotient exists (the call has to refuse)
        sh = [v for v in i1 if v in ci]
        if sh:
            v = draw(st.sampled_from(sh))
            k = float(draw(st.integers(-2, 2)))
            sg = draw(st.sampled_from([1.0, -1.0]))
            c = dict(c, a=c["a"] + [[{v: sg}, sg * k]])
            c1 = dict(c1, a=c1["a"] + [[{v: -sg}, -sg * k - draw(st.sampled_from([1.0, 0.5, 2.0]))]])
        else:
            rel = "independent"
    return {"mode": "free", "c": c, "c1": c1, "rel": rel, "addl_pick": draw(st.lists(st.booleans(), min_size=6, max_size=6)),
            "simplify": draw(st.sampled_from([True, True, False])), "order": draw(gens.order_s())}


@st.composite
def _kay2(draw):
    """the other orientation of a multi-variable elimination: dividend and divisor share their inputs u1..uk, the dividend bounds
    its output by a combination of all of them, the divisor has one output per input with a guarantee row whose diagonal entry may
    or may not dominate the couplings; the quotient has to trade the u's for the divisor's outputs in one step"""
    k = draw(st.sampled_from([3, 3, 4, 2]))
    us = ["u1", "u2", "u3", "u4"][:k]
    xs = ["x1", "x2", "x3", "x4"][:k]
    sg = draw(st.sampled_from([1.0, -1.0]))
    top_g = [[dict({"y": -sg}, **{u: sg * draw(st.sampled_from([1, 1, 2, 0.5])) for u in us}), float(draw(st.integers(0, 2)))]]
    g1 = []
    for i, (u, x) in enumerate(zip(us, xs)):
        row = {x: -sg, u: sg * draw(st.sampled_from([4, 3, 2, 1]))}
        for j, o in enumerate(us):
            if j != i and draw(st.booleans()):
                row[o] = sg * draw(st.sampled_from([3, 1, 0.5, 2, 3]))
        g1.append([row, float(draw(st.integers(0, 1)))])
    g1 = list(draw(st.permutations(g1))) if draw(st.booleans()) else g1
    c = {"a": [], "g": top_g, "i": us, "o": ["y"]}
    c1 = {"a": [], "g": g1, "i": us, "o": xs}
    return {"mode": "free", "c": c, "c1": c1, "rel": "kaykobad2", "addl_pick": draw(st.lists(st.booleans(), min_size=6, max_size=6)),
            "simplify": draw(st.sampled_from([True, True, False])), "order": draw(gens.order_s())}


def strategy(tier):
    return st.one_of(_built(), _built(), _built(), _free(), _free(), _free(), _free(), _kay(), _kay(), _kay2())


def run_case(case):
    labels = ["mode:" + case["mode"], "simplify:%s" % case["simplify"],
              "order:" + ("default" if case["order"] is None else "single-%d" % case["order"][0] if len(case["order"]) == 1 else "multi")]
    if case["mode"] == "built":
        pr = case["pair"]
        pair = c01.build_pair(pr, labels)
        if pair is None:
            return {"viol": None, "nontrivial": False, "labels": labels, "outcome": "construction-refused"}
        ca, cb = pair
        status, res = env.call("compose_tactics", ca.compose_tactics, cb, list(pr["keep"]), True, None)
        if status != "ok":
            return {"viol": None, "nontrivial": False, "labels": labels + ["dividend-compose-refused"], "outcome": "no-dividend"}
        top = res[0]
        div = ca if case["divisor"] == "first" else cb
        labels.append("weaken:" + case["weaken"])
        if case["weaken"] != "none":
            d = env.c_data(top)
            if case["weaken"] == "loosen-g":
                d["g"] = [[t[0], t[1] + case["loosen"]] for t in d["g"]]
            elif d["i"]:
                d["a"] = d["a"] + [[{d["i"][0]: 1.0}, 3.0 + case["loosen"]]]
            status, top = env.call("construct", env.C, d)
            if status != "ok":
                return {"viol": None, "nontrivial": False, "labels": labels + ["construction-refused"], "outcome": "construction-refused"}
    else:
        s1, top = env.call("construct", env.C, case["c"])
        s2, div = env.call("construct", env.C, case["c1"])
        if s1 != "ok" or s2 != "ok":
            return {"viol": None, "nontrivial": False, "labels": labels + ["construction-refused"], "outcome": "construction-refused"}
        labels.append("rel:" + case["rel"])
    dt, dd = env.c_data(top), env.c_data(div)
    allowed = list(dict.fromkeys(dt["i"] + dd["o"]))
    addl = [v for v, pick in zip(allowed, case["addl_pick"]) if pick and hash(v) is not None][:2] if any(case["addl_pick"][:2]) else []
    labels.append("addl:%d" % len(addl))
    order = None if case["order"] is None else list(case["order"])
    status, res = env.call("quotient_tactics", top.quotient_tactics, div, [env.Var(v) for v in addl], case["simplify"], order)
    if status == "refused":
        return {"viol": None, "nontrivial": False, "labels": labels + ["refused:" + type(res).__name__], "outcome": "refused"}
    q, stats = res
    dq = env.c_data(q)
    used = c01.used_tactics(stats)
    labels += ["tactic-%d" % u for u in used] or ["no-tactic"]
    names = gens.contract_names(dt, dd, dq)
    st_, ref = env.call("refines", top.a.refines, div.a)
    labels.append("branch:top-assumptions-%s-divisor's" % ("imply" if (st_ == "ok" and ref) else "do-not-imply"))
    hyps = [exact.conj(dt["a"]), exact.implies(dd["a"], dd["g"]), exact.implies(dq["a"], dq["g"])]
    viol = None
    for part, concl in (("A1", dd["a"]), ("AQ", dq["a"]), ("G", dt["g"])):
        bad = exact.find_violation(hyps, concl, names)
        if bad:
            viol = {"what": "quotient composed with the divisor does not refine the dividend: %s term %s can be violated" % (part, bad["term"]),
                    "sig": {"kind": "unsound-quotient", "part": part, "tactics": used},
                    "detail": dict(bad, quotient=dq, dividend=dt, divisor=dd, additional_inputs=addl)}
            break
    nontrivial = bool(dq["a"] or dq["g"]) and exact.feasible(hyps, names, exact.BOX)
    return {"viol": viol, "nontrivial": nontrivial, "labels": labels, "outcome": "returned"}
