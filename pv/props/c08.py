"""C08  Merging is the exact conjunction of the two viewpoints."""
from hypothesis import strategies as st

from pv import env, exact, gens

ID = "C08"
LEVEL = "exploration"
N = {"quick": 600, "thorough": 5000}
RULE = ("cases = pairs of contracts whose union interface is well formed (shared inputs, shared outputs, disjoint, both) or ill formed "
        "(an input of one is an output of the other), with duplicated / scaled / mutually implied / nearly parallel (one coefficient off by 2e-6..5e-6) / look-alike (one coefficient different) terms across the two, infeasible "
        "conjunctions, both operand orders; oracle: interface = unions, A_M <=> A1&A2, A_M&G_M <=> A1&A2&G1&G2, merge(a,b) equivalent to "
        "merge(b,a), ValueError only if A1&A2&G1&G2 is infeasible, IncompatibleArgsError iff the union interface is ill formed; "
        "non-trivial = merge returned and both operands have at least one term; distinct = SHA-1 of the case")
ASSUMPTIONS = ["operands are the contracts as constructed"]


@st.composite
def _case(draw):
    shape = draw(st.sampled_from(["shared-in", "shared-out", "disjoint", "both", "both", "ill-formed"]))
    i1, o1 = ["a"], ["x"]
    i2, o2 = ["b"], ["y"]
    if shape in ("shared-in", "both"):
        i2 = ["a"] + (["b"] if draw(st.booleans()) else [])
    if shape in ("shared-out", "both"):
        o2 = ["x"] + (["y"] if draw(st.booleans()) else [])
    if shape == "ill-formed":
        i2, o2 = ["x"] + i2, o2
    if draw(st.booleans()):
        i1 = i1 + ["c"]
    names = sorted(set(i1 + o1 + i2 + o2))
    w = draw(gens.witness_s(names))
    c1 = draw(gens.wild_contract_s(i1, o1, w, na=(0, 2), ng=(1, 3)))
    c2 = draw(gens.wild_contract_s(i2, o2, w, na=(0, 2), ng=(1, 3)))
    overlap = draw(st.sampled_from(["none", "dup", "scaled", "implied", "infeasible", "near", "lookalike", "mirror"]))
    common = [v for v in i1 + o1 if v in i2 + o2]
    if overlap != "none" and common:
        src_pool = [t for t in c1["g"] if set(t[0]) <= set(i2 + o2)]
        if src_pool:
            t = draw(st.sampled_from(src_pool))
            if overlap == "dup":
                c2["g"].append([dict(t[0]), t[1]])
            elif overlap == "scaled":
                f = draw(st.sampled_from([2, 0.5, 3]))
                c2["g"].append([{k: v * f for k, v in t[0].items()}, t[1] * f])
            elif overlap == "mirror":
                # the same coefficient values on the same variables, but attached the other way round and entered in reverse order
                ks = list(t[0])
                if len(ks) >= 2 and len(set(t[0].values())) >= 2:
                    vals = [t[0][k_] for k_ in ks]
                    c2["g"].append([dict(zip(reversed(ks), vals)), t[1]])
                else:
                    overlap = "none"
            elif overlap == "lookalike":
                # same variables and constant, one coefficient clearly different (any position): another constraint, not a duplicate
                k = draw(st.sampled_from(sorted(t[0])))
                nv = t[0][k] + draw(st.sampled_from([1, -1, 2, 0.5]))
                c2["g"].append([{n: ((nv or 3.0) if n == k else v) for n, v in t[0].items()}, t[1]])
            elif overlap == "near":
                # almost the same direction (relative 2e-6..5e-6 on one coefficient): neither implies the other inside the box
                k = draw(st.sampled_from(sorted(t[0])))
                f = 1 + draw(st.sampled_from([5e-6, -5e-6, 2e-6]))
                c2["g"].append([{n: (v * f if n == k else v) for n, v in t[0].items()}, t[1]])
            elif overlap == "implied":
                c2["g"].append([dict(t[0]), t[1] + draw(st.sampled_from([0.5, 1, 0.25]))])
            else:
                c2["g"].append([{k: -v for k, v in t[0].items()}, -t[1] - draw(st.sampled_from([1, 2]))])
        else:
            overlap = "none"
    else:
        overlap = "none"
    if draw(st.integers(0, 5)) == 0:
        # an unrelated constraint with a constant of 1e5..1e6 somewhere in the merged system
        tgt = draw(st.sampled_from([c1, c2]))
        v = draw(st.sampled_from(tgt["o"]))
        kf = draw(st.sampled_from([1000.0, 100.0, 1.0]))
        tgt["g"].append([{v: kf}, float(kf * w[v] + draw(st.sampled_from([1e5, 6e5, 1e6])))])
        overlap += "+big-constant"
    return {"c1": c1, "c2": c2, "shape": shape, "overlap": overlap}


def strategy(tier):
    return _case()


def run_case(case):
    labels = ["shape:" + case["shape"], "overlap:" + case["overlap"]]
    s1, c1 = env.call("construct", env.C, case["c1"])
    s2, c2 = env.call("construct", env.C, case["c2"])
    if s1 != "ok" or s2 != "ok":
        return {"viol": None, "nontrivial": False, "labels": labels + ["construction-refused"], "outcome": "construction-refused"}
    d1, d2 = env.c_data(c1), env.c_data(c2)
    names = gens.contract_names(d1, d2)
    ui = list(dict.fromkeys(d1["i"] + d2["i"]))
    uo = list(dict.fromkeys(d1["o"] + d2["o"]))
    ill = bool(set(ui) & set(uo))
    status, m = env.call("merge", c1.merge, c2)
    status2, m2 = env.call("merge", c2.merge, c1)
    allc = d1["a"] + d2["a"] + d1["g"] + d2["g"]
    viol = None
    if ill:
        if status == "ok" or not isinstance(m, env.IncompatibleArgsError):
            viol = {"what": "merge with an ill-formed union interface did not raise IncompatibleArgsError (got %r)" % (m,),
                    "sig": {"kind": "ill-formed-merge-accepted"}, "detail": {}}
        return {"viol": viol, "nontrivial": True, "labels": labels + ["ill-formed"], "outcome": "judged"}
    if status == "refused":
        labels.append("refused:" + type(m).__name__)
        tight = ("and", [exact.le(t, -exact.tol(t)) for t in allc])
        if isinstance(m, env.IncompatibleArgsError):
            viol = {"what": "merge raised IncompatibleArgsError although the union interface is well formed: %s" % m,
                    "sig": {"kind": "well-formed-merge-rejected"}, "detail": {}}
        elif exact.feasible([tight], None, exact.BOX):
            viol = {"what": "merge raised %s although A1&A2&G1&G2 is satisfiable" % type(m).__name__,
                    "sig": {"kind": "merge-raised-on-feasible"}, "detail": {"message": str(m)[:200]}}
        return {"viol": viol, "nontrivial": False, "labels": labels, "outcome": "refused"}
    d = env.c_data(m)
    if set(d["i"]) != set(ui) or set(d["o"]) != set(uo) or len(d["i"]) != len(set(d["i"])) or len(d["o"]) != len(set(d["o"])):
        viol = {"what": "merge interface is not the union of the interfaces", "sig": {"kind": "merge-interface"}, "detail": {"result": d}}
    if viol is None:
        e = exact.equivalent(d["a"], d1["a"] + d2["a"], names)
        if e:
            viol = {"what": "merged assumptions are not the conjunction of both assumptions (%s)" % e["direction"],
                    "sig": {"kind": "merge-not-conjunction", "part": "assumptions"}, "detail": dict(e, result=d)}
    if viol is None:
        e = exact.equivalent(d["a"] + d["g"], allc, names)
        if e:
            viol = {"what": "merged behaviours differ from the conjunction of both viewpoints (%s)" % e["direction"],
                    "sig": {"kind": "merge-not-conjunction", "part": "guarantees", "direction": e["direction"]}, "detail": dict(e, result=d)}
    if viol is None:
        if status2 != "ok":
            viol = {"what": "merge(a,b) returned but merge(b,a) raised %r" % m2, "sig": {"kind": "merge-order"}, "detail": {}}
        else:
            dd = env.c_data(m2)
            e = exact.equivalent(dd["a"], d["a"], names) or exact.equivalent(dd["a"] + dd["g"], d["a"] + d["g"], names)
            if e or set(dd["i"]) != set(d["i"]) or set(dd["o"]) != set(d["o"]):
                viol = {"what": "merge(a,b) and merge(b,a) differ in meaning", "sig": {"kind": "merge-order"}, "detail": {"ab": d, "ba": dd}}
    nontrivial = bool(d1["a"] + d1["g"]) and bool(d2["a"] + d2["g"])
    return {"viol": viol, "nontrivial": nontrivial, "labels": labels, "outcome": "returned"}
