"""C12  Optimisation over a contract returns the true optimum, None iff unbounded."""
from fractions import Fraction as F

from hypothesis import strategies as st

from pv import env, exact, gens

ID = "C12"
LEVEL = "exploration"
N = {"quick": 1500, "thorough": 5000}
RULE = ("cases = (contract over <=5 variables: satisfiable via witness / unsatisfiable built with simplify=False / without any "
        "constraint / bounded or unbounded in the objective direction, objective with 1-3 small-integer coefficients rendered as a "
        "string in one of several spellings, direction) and get_variable_bounds for an interface variable; expected result from an "
        "exact rational LP (z3 Optimize): value within 1e-6 relative, None iff feasible and unbounded, ValueError iff infeasible; "
        "non-trivial = contract has >= 1 constraint and the expected class is value or unbounded or infeasible with >= 2 terms; "
        "distinct = SHA-1 of the case")
ASSUMPTIONS = ["infeasible systems are generated with margin >= 0.5 so that infeasibility is robust"]


def render(obj, style):
    parts = []
    for i, (v, a) in enumerate(obj):
        mag = abs(a)
        if style == 0:
            body = ("%d%s" % (mag, v)) if mag != 1 else v
        elif style == 1:
            body = "%d*%s" % (mag, v)
        elif style == 2:
            body = "%s %s" % (("%.1f" % mag), v)
        else:
            body = ("%d %s" % (mag, v)) if mag != 1 else v
        if i == 0:
            parts.append(("-" if a < 0 else "") + body)
        else:
            parts.append((" - " if a < 0 else " + ") + body)
    return "".join(parts)


@st.composite
def _case(draw):
    ins = ["a", "b", "c"][:draw(st.integers(1, 3))]
    outs = ["x", "y"][:draw(st.integers(1, 2))]
    names = ins + outs
    w = draw(gens.witness_s(names))
    cls = draw(st.sampled_from(["boxed", "boxed", "wild", "wild", "noconstraints", "infeasible"]))
    if cls == "noconstraints":
        c = {"a": [], "g": [], "i": ins, "o": outs}
    elif cls == "boxed":
        c = draw(gens.wild_contract_s(ins, outs, w, na=(0, 2), ng=(0, 2)))
        for v in names:
            if draw(st.integers(0, 4)) > 0:
                lst = c["a"] if v in ins else c["g"]
                if draw(st.integers(0, 5)) > 0:
                    lst.append([{v: 1.0}, float(w[v] + draw(st.sampled_from([0, 1, 3])))])
                if draw(st.integers(0, 5)) > 0:
                    lst.append([{v: -1.0}, float(-w[v] + draw(st.sampled_from([0, 1, 3])))])
    else:
        c = draw(gens.wild_contract_s(ins, outs, w, na=(0, 3), ng=(1, 4)))
        if cls == "infeasible" and draw(st.integers(0, 3)) == 0:
            # a constraint without variables that cannot hold (0 <= -1), as left by a cancelling rename or written as "x - x <= -1"
            (c["g"] if draw(st.booleans()) else c["a"]).append([{}, -float(draw(st.sampled_from([1, 2, 0.5])))])
        elif cls == "infeasible":
            src = draw(st.sampled_from(c["a"] + c["g"]))
            neg = [{k: -v for k, v in src[0].items()}, -src[1] - draw(st.sampled_from([1, 2, 0.5]))]
            if all(k in ins for k in neg[0]) and draw(st.booleans()):
                c["a"].append(neg)
            else:
                c["g"].append(neg)
    if cls in ("boxed", "wild") and draw(st.integers(0, 7)) == 0:
        # an assumption and a guarantee over the same variables that differ only in the 6th significant digit: both count
        v = draw(st.sampled_from(ins))
        big = float(draw(st.sampled_from([100000, 250000, 40000])))
        sg = draw(st.sampled_from([1.0, -1.0]))
        c["a"].append([{v: sg}, big + 1.0])
        c["g"].append([{v: sg}, big])
        if draw(st.booleans()):
            o = outs[0]
            c["a"].append([{v: big, ins[-1]: -big}, 0.0]) if len(ins) > 1 else None
            c["g"].append([{o: 1.0, v: -sg}, 0.0])
        cls = cls + "+near-duplicate"
    if cls in ("boxed", "wild") and draw(st.integers(0, 9)) == 0:
        # a bound written with a coefficient below 1e-6 (2^-21, 5e-7): it still bounds the variable, at 1e6 times the constant
        v = draw(st.sampled_from(outs))
        tiny = draw(st.sampled_from([2.0 ** -21, 5e-7, 8e-7]))     # below about 1e-6 HiGHS may miss an unbounded direction (known finding)
        sg = draw(st.sampled_from([1.0, -1.0]))
        u = draw(st.sampled_from(ins))
        c["g"].append([{v: sg * tiny, u: -1.0}, float(draw(st.integers(0, 3)))])
        c["a"].append([{u: 1.0}, float(w[u] + draw(st.sampled_from([1, 4])))])
        cls = cls + "+tiny-coefficient"
    if cls.startswith(("boxed", "wild")) and draw(st.integers(0, 9)) == 0:
        # a constraint without variables that holds (0 <= c, c >= 0), as left by a rename that cancels every variable
        (c["g"] if draw(st.booleans()) else c["a"]).append([{}, float(draw(st.sampled_from([0, 0, 1, 2])))])
        cls = cls + "+varfree-satisfied"
    k = draw(st.integers(1, min(3, len(names))))
    ovars = draw(st.lists(st.sampled_from(names), min_size=k, max_size=k, unique=True))
    obj = [[v, draw(st.sampled_from([1, -1, 2, -2, 3, -3, 5]))] for v in ovars]
    return {"c": c, "cls": cls, "obj": obj, "style": draw(st.integers(0, 3)), "maximize": draw(st.booleans()),
            "query": draw(st.sampled_from(["optimize", "optimize", "bounds"])), "bvar": draw(st.sampled_from(names))}


def strategy(tier):
    return _case()


def _cmp(got, raised, kind, val, what):
    """compare one optimisation outcome with the exact one"""
    if kind == "infeasible":
        if raised is None:
            return {"what": "%s returned %r for an unsatisfiable contract (ValueError expected)" % (what, got),
                    "sig": {"kind": "wrong-optimum", "exact": "infeasible", "returned": "None" if got is None else "value"}, "detail": {}}
        return None
    if raised is not None:
        return {"what": "%s raised %r but the contract is satisfiable (exact: %s)" % (what, raised, kind),
                "sig": {"kind": "wrong-optimum", "exact": kind, "returned": "ValueError"}, "detail": {}}
    if kind == "unbounded":
        if got is not None:
            return {"what": "%s returned %r but the objective is unbounded" % (what, got),
                    "sig": {"kind": "wrong-optimum", "exact": "unbounded", "returned": "value"}, "detail": {}}
        return None
    if got is None:
        return {"what": "%s returned None but the exact optimum is %s" % (what, val),
                "sig": {"kind": "wrong-optimum", "exact": "value", "returned": "None"}, "detail": {}}
    if abs(F(float(got)) - val) > F(1, 10 ** 6) * (1 + abs(val)):
        return {"what": "%s returned %r, exact optimum is %s (%f)" % (what, got, val, float(val)),
                "sig": {"kind": "wrong-optimum", "exact": "value", "returned": "value"}, "detail": {}}
    return None


def run_case(case):
    r = _run_case(case)
    if r.get("viol"):
        mags = [abs(v) for t in case["c"]["a"] + case["c"]["g"] for v in t[0].values() if v != 0]
        r["viol"]["sig"]["below_solver_threshold"] = bool(mags) and min(mags) < 1e-6
    return r


def _run_case(case):
    c = case["c"]
    labels = ["class:" + case["cls"], "query:" + case["query"]]
    st_, con = env.call("construct", env.C, c, False)
    if st_ != "ok":
        return {"viol": None, "nontrivial": False, "labels": labels + ["construction-refused"]}
    allc = c["a"] + c["g"]
    hyp = [exact.conj(allc)]

    def run(fn, *a):
        try:
            return fn(*a), None
        except ValueError as e:
            return None, e
        except Exception as e:  # noqa: B902
            raise env.Undocumented(e, "optimize") from e
    if case["query"] == "optimize":
        obj = {v: a for v, a in case["obj"]}
        expr = render(case["obj"], case["style"])
        kind, val = exact.optimum(hyp, obj, case["maximize"])
        got, raised = run(con.optimize, expr, case["maximize"])
        if raised is not None and not isinstance(raised, ValueError):
            raise env.Undocumented(raised, "optimize")
        viol = _cmp(got, raised, kind, val, "optimize(%r, maximize=%s)" % (expr, case["maximize"]))
        labels.append("exact:" + kind)
        return {"viol": viol, "nontrivial": bool(allc), "labels": labels, "outcome": "judged"}
    v = case["bvar"]
    kmax, vmax = exact.optimum(hyp, {v: 1}, True)
    kmin, vmin = exact.optimum(hyp, {v: 1}, False)
    got, raised = run(con.get_variable_bounds, v)
    labels.append("exact:%s/%s" % (kmin, kmax))
    viol = None
    if kmax == "infeasible":
        viol = _cmp(got, raised, "infeasible", None, "get_variable_bounds(%r)" % v)
    elif raised is not None:
        viol = _cmp(None, raised, kmax, vmax, "get_variable_bounds(%r)" % v)
    else:
        viol = _cmp(got[0], None, kmin, vmin, "get_variable_bounds(%r)[min]" % v) or _cmp(got[1], None, kmax, vmax, "get_variable_bounds(%r)[max]" % v)
    return {"viol": viol, "nontrivial": bool(allc), "labels": labels, "outcome": "judged"}
