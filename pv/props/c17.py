"""C17  Compound (disjunctive) contracts behave as unions of polyhedra."""
from fractions import Fraction as F

from hypothesis import strategies as st

from pv import env, exact

ID = "C17"
LEVEL = "exploration"
N = {"quick": 1000, "thorough": 4000}
RULE = ("cases over <=4 variables with 1-3 alternatives per side, each alternative an interval box (integer / half-integer bounds) along a "
        "distinguished variable plus optional bounds on the others, so that disjoint (gap >= 1), touching, overlapping and empty "
        "alternatives occur on purpose, plus merge operands whose alternatives differ only beyond the 4th significant digit (bounds 100 / 100.04 / 100.08); operations: constructor with force_empty_intersection, contains_behavior, compound merge, <=, dictionary round trip; "
        "oracle: z3 over disjunctions (a point 'robustly outside' a union violates some term of every alternative by more than the "
        "tolerance); non-trivial = at least 2 alternatives on some side and the operation was judged; distinct = SHA-1 of the case")
ASSUMPTIONS = ["<= is checked in one direction only (True => containment), as the property states"]

VARS = ["a", "b", "x"]


@st.composite
def _alt(draw, var, others, lo=None):
    lo = draw(st.integers(-4, 3)) if lo is None else lo
    width = draw(st.sampled_from([0, 1, 1, 2, 3]))
    hi = lo + width
    ts = [[{var: 1.0}, float(hi)], [{var: -1.0}, float(-lo)]]
    for o in others:
        r = draw(st.integers(0, 3))
        b = draw(st.integers(-3, 3))
        if r == 1:
            ts.append([{o: 1.0}, float(b)])
        elif r == 2:
            ts.append([{o: -1.0, var: draw(st.sampled_from([1.0, -1.0, 0.5]))}, float(b)])
    return ts, lo, hi


@st.composite
def _family(draw, var, others, disjoint):
    """1-3 alternatives along `var`; if `disjoint`, consecutive ones are separated by a gap >= 1."""
    n = draw(st.integers(1, 3))
    alts, cur = [], draw(st.integers(-5, 0))
    rel = []
    for k in range(n):
        ts, lo, hi = draw(_alt(var, others, cur))
        alts.append(ts)
        if disjoint:
            step = draw(st.sampled_from([1, 1, 2]))
            rel.append("gap")
        else:
            step = draw(st.sampled_from([1, 2, 0, 0, -1]))
            rel.append({0: "touch", -1: "overlap"}.get(step, "gap"))
        cur = hi + step
    if draw(st.integers(0, 9)) == 0:
        alts.append([[{var: 1.0}, 0.0], [{var: -1.0}, -2.0]])   # an empty alternative
        rel.append("empty")
    return alts, rel


@st.composite
def _case(draw):
    op = draw(st.sampled_from(["construct", "contains", "merge", "merge", "le", "roundtrip"]))
    if op == "roundtrip":
        # a compound contract written to its dictionary form and read back denotes the same unions (zero alternatives included)
        aa, ra = draw(_family("a", ["b"], disjoint=True))
        gg, _ = draw(_family("x", ["a"], disjoint=False))
        if draw(st.integers(0, 3)) == 0:
            aa = []
        pts = [{"a": float(draw(st.integers(-6, 6))), "b": float(draw(st.integers(-4, 4))), "x": float(draw(st.integers(-6, 6)))} for _ in range(4)]
        return {"op": op, "a1": aa, "g1": gg, "pts": pts, "rel": sorted(set(ra)) + (["zero-alternatives"] if not aa else [])}
    if op == "construct":
        if draw(st.integers(0, 5)) == 0:
            # two or three slabs / half-spaces across one direction over 3-4 variables: fewer rows than variables in every pair
            vs = ["a", "b", "c", "d"][:draw(st.integers(3, 4))]
            d = {v: float(draw(st.sampled_from([1, 1, -1, 2]))) for v in vs}
            gap = draw(st.sampled_from([1, 1, 0, -1]))
            lo = float(draw(st.integers(-2, 2)))
            alts = [[[dict(d), lo]], [[{v: -k for v, k in d.items()}, -(lo + gap)]]]
            return {"op": op, "alts": alts, "rel": ["halfspaces", {1: "gap", 0: "touch", -1: "overlap"}[gap]], "via": "nested"}
        alts, rel = draw(_family("a", ["b"], disjoint=draw(st.booleans())))
        alts = list(draw(st.permutations(alts)))
        return {"op": op, "alts": alts, "rel": sorted(set(rel)), "via": draw(st.sampled_from(["nested", "contract-constructor", "from_strings"]))}
    if op == "contains":
        alts, rel = draw(_family("a", ["b"], disjoint=False))
        beh = {"a": float(draw(st.sampled_from([-5, -4, -3, -2, -1, 0, 1, 2, 3, 4, 5, 0.5, 1.5, -0.5, 2.5]))),
               "b": float(draw(st.integers(-4, 4))), "x": 0.0}
        if draw(st.integers(0, 7)) == 0:
            beh.pop("b")
        if draw(st.integers(0, 7)) == 0:
            alts = []           # zero alternatives: the empty union contains nothing
        return {"op": op, "alts": alts, "beh": beh, "rel": sorted(set(rel))}
    if op == "le":
        a1, r1 = draw(_family("a", ["b"], disjoint=False))
        kind = draw(st.sampled_from(["random", "widened", "subset"]))
        if kind == "random":
            a2, r2 = draw(_family("a", ["b"], disjoint=False))
        elif kind == "widened":
            a2 = [[[dict(t[0]), t[1] + draw(st.sampled_from([0, 1, 2]))] for t in alt] for alt in a1]
            a2 = list(draw(st.permutations(a2)))
        else:
            a2 = a1 + draw(_family("a", ["b"], disjoint=False))[0]
        empty = draw(st.sampled_from(["none", "none", "none", "none", "right", "left", "both"]))
        if empty in ("right", "both"):
            a2, kind = [], "empty-right"
        if empty in ("left", "both"):
            a1 = []
        return {"op": op, "alts": a1, "alts2": a2[:4], "lekind": kind, "rel": sorted(set(r1))}
    # merge of two compound contracts over the same interface (inputs a,b; output x)
    aa1, ra1 = draw(_family("a", ["b"], disjoint=True))
    aa2, ra2 = draw(_family("a", ["b"], disjoint=True))
    g1, _ = draw(_family("x", ["a"], disjoint=False))
    g2, _ = draw(_family("x", ["a"], disjoint=False))
    rel = sorted(set(ra1 + ra2))
    alike = draw(st.integers(0, 5))
    if alike == 0:
        # guarantee alternatives that differ only beyond the 4th significant digit (they print alike), against a loose one
        base = float(draw(st.sampled_from([100, 200, 500])))
        ds = draw(st.permutations([0.0, 0.04, 0.08, 0.3]))[:draw(st.integers(2, 3))]
        g2 = [[[{"x": 1.0}, base + d], [{"x": -1.0}, 0.0]] for d in ds]
        g1 = [[[{"x": 1.0}, base + draw(st.sampled_from([1.0, 50.0]))], [{"x": -1.0}, float(draw(st.integers(0, 2)))]]]
        if draw(st.booleans()):
            g1, g2 = g2, g1
        rel.append("print-alike-g")
    elif alike == 2:
        # guarantee alternatives that agree up to a relative 9e-6 in one coefficient (equal under a tolerance-based comparison)
        f = 1 + draw(st.sampled_from([9e-6, -9e-6]))
        hi = float(draw(st.sampled_from([900, 500])))
        g1 = [[[{"x": 1.0, "a": -1.0}, 0.0], [{"x": 1.0}, hi], [{"x": -1.0}, 0.0]]]
        g2 = [[[{"x": f, "a": -1.0}, 0.0], [{"x": 1.0}, hi], [{"x": -1.0}, 0.0]]]
        if draw(st.booleans()):
            g1, g2 = g2, g1
        rel.append("near-twin-g")
    elif alike == 1:
        # thin disjoint assumption alternatives that print alike
        base = float(draw(st.sampled_from([100, 200, 500])))
        offs = draw(st.permutations([0.0, 0.04, 0.08]))[:draw(st.integers(2, 3))]
        aa2 = [[[{"a": 1.0}, base + d + 0.01], [{"a": -1.0}, -(base + d)]] for d in offs]
        aa1 = [[[{"a": 1.0}, base + 1.0], [{"a": -1.0}, float(draw(st.integers(0, 2)))]]]
        if draw(st.booleans()):
            aa1, aa2 = aa2, aa1
        rel.append("print-alike-a")
    zero = draw(st.integers(0, 11))
    if zero < 2:
        # one operand has no alternative at all on one side (as a merge of disjoint contracts returns): the empty union
        side = draw(st.sampled_from(["g1", "g2", "a1", "a2"]))
        if side == "g1":
            g1 = []
        elif side == "g2":
            g2 = []
        elif side == "a1":
            aa1 = []
        else:
            aa2 = []
        rel.append("zero-alternatives-" + side)
    return {"op": op, "a1": aa1, "a2": aa2, "g1": g1, "g2": g2, "rel": rel}


def strategy(tier):
    return _case()


def union(alts, slack=0):
    return ("or", [exact.conj(a, slack) for a in alts])


def outside(alts):
    """robustly outside the union: every alternative has a term violated by more than the tolerance"""
    return ("and", [("or", [exact.gt(t, exact.tol(t)) for t in a]) for a in alts])


def nested(alts, force):
    return env.NestedPolyhedra([env.TL(a) for a in alts], force_empty_intersection=force)


def run_case(case):
    op = case["op"]
    labels = ["op:" + op] + ["rel:" + r for r in case.get("rel", [])]
    if op == "construct":
        alts = case["alts"]
        share = None
        for i in range(len(alts)):
            for j in range(i + 1, len(alts)):
                if exact.feasible([exact.conj(alts[i]), exact.conj(alts[j])]):
                    share = (i, j)
        via = case.get("via", "nested")
        if via == "nested":
            status, res = env.call("NestedPolyhedra", nested, alts, True)
        elif via == "contract-constructor":
            # the compound contract constructor must re-validate assumptions built without the disjointness check
            status, res = env.call("PolyhedralIoContractCompound", lambda: env.PolyhedralIoContractCompound(
                nested(alts, False), nested([[[{"x": 1.0}, 0.0]]], False), [env.Var("a"), env.Var("b")], [env.Var("x")]))
        else:
            status, res = env.call("from_strings", lambda: env.PolyhedralIoContractCompound.from_strings(
                [env.TL(a).to_str_list() for a in alts], [["x <= 0"]], ["a", "b"], ["x"]), documented=env.STRING_DOCUMENTED)
        labels.append("via:" + via)
        viol = None
        labels.append("share-point:%s" % (share is not None))
        if share is not None and status == "ok":
            viol = {"what": "assumption alternatives %d and %d share a behaviour but were accepted" % share,
                    "sig": {"kind": "overlap-accepted", "touching": "touch" in case["rel"]}, "detail": {}}
        if share is None and status != "ok":
            viol = {"what": "pairwise disjoint alternatives were rejected: %s" % type(res).__name__, "sig": {"kind": "disjoint-rejected"}, "detail": {}}
        return {"viol": viol, "nontrivial": len(alts) >= 2, "labels": labels, "outcome": "judged"}
    if op == "contains":
        alts, beh = case["alts"], case["beh"]
        n = nested(alts, False)
        used = {v for a in alts for t in a for v in t[0]}
        missing = used - set(beh)
        try:
            got, raised = n.contains_behavior({env.Var(k): v for k, v in beh.items()}), None
        except ValueError as e:
            got, raised = None, e
        except Exception as e:  # noqa: B902
            raise env.Undocumented(e, "NestedTermList.contains_behavior") from e
        viol = None
        if missing:
            # ValueError is required only if an alternative that would have to be evaluated lacks a value; accept raise or False-free answers
            if raised is None and got:
                pass
            return {"viol": None, "nontrivial": False, "labels": labels + ["missing-var"], "outcome": "not-judged"}
        exp = any(exact.holds_exact(a, {k: F(v) for k, v in beh.items()}) for a in alts)
        if raised is not None:
            viol = {"what": "contains_behavior raised although all variables are assigned", "sig": {"kind": "contains-raised"}, "detail": {}}
        elif bool(got) != exp:
            viol = {"what": "nested contains_behavior answered %s; exact: %s" % (got, exp), "sig": {"kind": "wrong-nested-membership", "expected": exp}, "detail": {}}
        return {"viol": viol, "nontrivial": len(alts) >= 2, "labels": labels + ["expected-%s" % exp], "outcome": "judged"}
    if op == "roundtrip":
        iv, ov = [env.Var("a"), env.Var("b")], [env.Var("x")]
        s1, c1 = env.call("compound-construct", lambda: env.PolyhedralIoContractCompound(nested(case["a1"], True), nested(case["g1"], False), iv, ov))
        if s1 != "ok":
            return {"viol": None, "nontrivial": False, "labels": labels + ["construction-refused"], "outcome": "construction-refused"}
        s2, c2 = env.call("compound-roundtrip", lambda: env.PolyhedralIoContractCompound.from_strings(**c1.to_dict()), documented=env.STRING_DOCUMENTED)
        viol = None
        if s2 != "ok":
            viol = {"what": "a compound contract could not be read back from its own dictionary form: %r" % c2, "sig": {"kind": "compound-roundtrip-raised"}, "detail": {}}
        else:
            for part, n1, n2 in (("assumptions", c1.a, c2.a), ("guarantees", c1.g, c2.g)):
                if len(n1.nested_termlist) != len(n2.nested_termlist):
                    viol = viol or {"what": "%s have %d alternative(s) before and %d after the round trip" % (part, len(n1.nested_termlist), len(n2.nested_termlist)),
                                    "sig": {"kind": "compound-roundtrip", "part": part, "what": "alternatives"}, "detail": {}}
                for pt in case["pts"]:
                    beh = {env.Var(k): v for k, v in pt.items()}
                    try:
                        b1, b2 = n1.contains_behavior(beh), n2.contains_behavior(beh)
                    except ValueError:
                        continue
                    if bool(b1) != bool(b2):
                        viol = viol or {"what": "%s: membership of %s is %s before and %s after the round trip" % (part, pt, b1, b2),
                                        "sig": {"kind": "compound-roundtrip", "part": part, "what": "membership"}, "detail": {}}
        return {"viol": viol, "nontrivial": True, "labels": labels, "outcome": "judged"}
    if op == "le":
        n1, n2 = nested(case["alts"], False), nested(case["alts2"], False)
        status, got = env.call("NestedTermList.__le__", lambda: n1 <= n2)
        labels.append("le:" + case["lekind"])
        if status != "ok":
            return {"viol": {"what": "<= raised %r" % got, "sig": {"kind": "le-raised"}, "detail": {}}, "nontrivial": False, "labels": labels}
        viol = None
        labels.append("answer-%s" % bool(got))
        if got:
            pt = exact.solve([union(case["alts"]), outside(case["alts2"])])
            if pt is not None:
                viol = {"what": "nested <= answered True but the left union is not contained in the right one",
                        "sig": {"kind": "le-true-without-containment"}, "detail": {"point": exact.pt_json(pt)}}
        return {"viol": viol, "nontrivial": bool(got) and len(case["alts"]) + len(case["alts2"]) >= 3, "labels": labels, "outcome": "judged"}
    # merge
    iv, ov = [env.Var("a"), env.Var("b")], [env.Var("x")]

    def mk(a, g):
        return env.PolyhedralIoContractCompound(nested(a, True), nested(g, False), iv, ov)
    s1, c1 = env.call("compound-construct", mk, case["a1"], case["g1"])
    s2, c2 = env.call("compound-construct", mk, case["a2"], case["g2"])
    if s1 != "ok" or s2 != "ok":
        return {"viol": None, "nontrivial": False, "labels": labels + ["construction-refused"], "outcome": "construction-refused"}
    status, m = env.call("compound-merge", c1.merge, c2)
    if status != "ok":
        viol = {"what": "compound merge raised %s although the pairwise intersections of disjoint families are disjoint" % type(m).__name__,
                "sig": {"kind": "compound-merge-raised", "type": type(m).__name__}, "detail": {"message": str(m)[:200]}}
        return {"viol": viol, "nontrivial": False, "labels": labels + ["merge-raised"], "outcome": "raised"}
    viol = None
    for part, r_alts, u1, u2 in (("assumptions", [env.tl_data(t) for t in m.a.nested_termlist], case["a1"], case["a2"]),
                                 ("guarantees", [env.tl_data(t) for t in m.g.nested_termlist], case["g1"], case["g2"])):
        if viol:
            break
        for k, alt in enumerate(r_alts):
            if not exact.feasible([exact.conj(alt, exact.REL)]):
                viol = {"what": "merged %s keep an empty alternative" % part, "sig": {"kind": "empty-alternative-kept", "part": part}, "detail": {"alt": alt}}
        if viol is None:
            for u in (u1, u2):
                pt = exact.solve([union(r_alts), outside(u)]) if r_alts else None
                if pt is not None:
                    viol = {"what": "merged %s contain a point outside one operand's union" % part,
                            "sig": {"kind": "compound-merge-too-large", "part": part}, "detail": {"point": exact.pt_json(pt), "result": r_alts}}
                    break
        if viol is None:
            pt = exact.solve([union(u1), union(u2), outside(r_alts) if r_alts else ("and", [])])
            if pt is not None:
                viol = {"what": "a point of both operands' %s is missing from the merged %s" % (part, part),
                        "sig": {"kind": "compound-merge-too-small", "part": part}, "detail": {"point": exact.pt_json(pt), "result": r_alts}}
    if viol is None:
        # membership queries on the merged lists (possibly with zero alternatives) agree with their alternatives
        for part, nl in (("assumptions", m.a), ("guarantees", m.g)):
            alts = [env.tl_data(t) for t in nl.nested_termlist]
            pa = float(case["a1"][0][1][1]) * -1 if case["a1"] else 1.0
            px = float(case["g1"][0][0][1]) if case["g1"] else 1.0
            for pt in ({"a": 0.0, "b": 0.0, "x": 0.0}, {"a": pa, "b": 1.0, "x": px}):
                try:
                    got = nl.contains_behavior({env.Var(k): v for k, v in pt.items()})
                except ValueError:
                    continue
                exp = any(exact.holds_exact(a, {k: F(v) for k, v in pt.items()}) for a in alts)
                if bool(got) != exp:
                    viol = {"what": "merged %s (%d alternatives): contains_behavior(%s) answered %s, exact: %s" % (part, len(alts), pt, got, exp),
                            "sig": {"kind": "wrong-nested-membership", "expected": exp, "alternatives": min(len(alts), 2)}, "detail": {}}
    nontrivial = max(len(case["a1"]), len(case["a2"]), len(case["g1"]), len(case["g2"])) >= 2
    return {"viol": viol, "nontrivial": nontrivial, "labels": labels, "outcome": "judged"}
