"""C03  Refinement tests decide semantic containment exactly."""
from fractions import Fraction as F

from hypothesis import strategies as st

from pv import env, exact, gens

ID = "C03"
LEVEL = "exploration"
N = {"quick": 1500, "thorough": 10000}
RULE = ("pairs (L,R) of constraint lists / contracts / component-vs-contract generated per class (identical, sublist, "
        "weakened, farkas combination, scaled, separated, unrelated, unbounded, infeasible-left, infeasible-right, "
        "empty lists, guarantee inclusion only under the right assumptions, interface mismatch); expected answer decided "
        "exactly by z3 and judged only when robust (must-True: containment exact; must-False: a box point violates by "
        "more than the tolerance and the left side stays feasible when tightened); non-trivial = both sides non-empty, "
        "left side feasible, at least 2 variables or 2 terms, and the case was judged (not grey)")
ASSUMPTIONS = ["grey-zone cases (neither exactly contained nor violated beyond tolerance) are counted and not judged"]

P = gens.NAMES[:4]


def classify(L, R):
    """True / False / None(grey) for 'L refines R' as sets; L, R plain term lists."""
    if not exact.feasible([exact.conj(L)]):
        # robustly infeasible?  (still infeasible when every constant is relaxed by 1e-3)
        return True if not exact.feasible([exact.conj(L, F(1, 1000))]) else None
    grey = False
    for r in R:
        if exact.implied([exact.conj(L)], r):
            continue
        # not exactly implied: robustly violated?
        if exact.solve([exact.conj(L, -F(1, 10 ** 6)), exact.gt(r, exact.tol(r))]) is not None:
            return False
        grey = True
    return None if grey else True


def ill_conditioned(terms):
    """coefficients spread over at least five orders of magnitude (the threshold C07 uses)"""
    mags = [abs(v) for t in terms for v in t[0].values() if v != 0]
    return bool(mags) and max(mags) / min(mags) >= 1e5


@st.composite
def _pair(draw):
    nv = draw(st.integers(1, 4))
    large = draw(st.integers(0, 9)) == 0       # now and then 6 variables, 6-10 rows, up to 5 variables per row
    pool = gens.NAMES[:6] if large else P[:nv]
    w = draw(gens.witness_s(pool))
    cls = draw(st.sampled_from(["identical", "sublist", "weakened", "farkas", "scaled", "separated", "unrelated",
                                "unbounded", "infeasible-left", "infeasible-right", "empty-right", "empty-left",
                                "equal-bounds", "both-infeasible", "separated-large-constant", "separated-large-constant", "farkas-chain", "small-coefficient"]))
    L = draw(gens.termlist_s(pool, w, 6, 10, kmax=5)) if large else draw(gens.termlist_s(pool, w, 1, 5))
    if large:
        cls += "+large"
    if cls.startswith("identical"):
        R = list(draw(st.permutations(L)))
    elif cls == "sublist":
        R = [t for t in L if draw(st.booleans())] or L[:1]
    elif cls == "weakened":
        R = [[dict(t[0]), t[1] + draw(st.sampled_from([0, 0, 0.5, 1, 2]))] for t in L if draw(st.integers(0, 3)) > 0] or [L[0]]
    elif cls == "farkas":
        R = []
        for _ in range(draw(st.integers(1, 3))):
            co, c = {}, 0.0
            for t in L:
                m = draw(st.sampled_from([0, 0, 1, 1, 2, 3, 0.5]))
                for k, v in t[0].items():
                    co[k] = co.get(k, 0) + m * v
                c += m * t[1]
            co = {k: v for k, v in co.items() if v != 0}
            if co:
                R.append([co, c + draw(st.sampled_from([0, 0, 1]))])
        R = R or [L[0]]
    elif cls == "scaled":
        R = []
        for t in L:
            f = draw(st.sampled_from([1, 2, 0.5, 4, 3]))
            R.append([{k: v * f for k, v in t[0].items()}, t[1] * f])
            if draw(st.booleans()):
                R.append([dict(t[0]), t[1]])
    elif cls == "separated":
        R = draw(gens.termlist_s(pool, w, 1, 3))
        r = draw(st.sampled_from(R))
        gap = draw(st.sampled_from([1, 1, 2, 0.5]))
        # L lies entirely beyond r:  a.v >= c + gap ; re-centre L on a point of that half-space: keep only that + loose terms
        L = [[{k: -v for k, v in r[0].items()}, -(r[1] + gap)]]
        for _ in range(draw(st.integers(0, 2))):
            t = draw(gens.term_s(pool, None))
            L.append([t[0], t[1] + 40.0])
    elif cls == "farkas-chain":
        # the right-hand row follows only through a chain of 3-6 left-hand rows whose intermediate variables cancel
        k = draw(st.integers(3, 6))
        names = ["a", "b", "c", "x", "y", "z", "w"][:k]
        sg = draw(st.sampled_from([1.0, -1.0]))
        L, tot = [], 0.0
        for p_, q_ in zip(names, names[1:]):
            c = float(draw(st.integers(-2, 3)))
            L.append([{p_: sg, q_: -sg}, c])
            tot += c
        c = float(draw(st.integers(-2, 3)))
        L.append([{names[-1]: sg}, c])
        tot += c
        L = list(draw(st.permutations(L)))
        R = [[{names[0]: sg}, tot + draw(st.sampled_from([0, 0, 1, -1, 0.5]))]]
        if draw(st.booleans()):
            R.append([{names[0]: sg, names[-1]: -sg}, tot - c + draw(st.sampled_from([0, 1]))])
    elif cls == "separated-large-constant":
        # a small but clear violation next to a very loose left-hand bound with a large constant
        R = draw(gens.termlist_s(pool, w, 1, 2))
        r = draw(st.sampled_from(R))
        gap = draw(st.sampled_from([0.5, 0.25, 0.01, 0.05]))
        big = draw(st.sampled_from([2e4, 1e5, 1e6, 5e5]))
        width = draw(st.sampled_from([1.0, 0.0, 0.01]))     # how far the left side extends beyond the violated bound
        L = [[{k: -v for k, v in r[0].items()}, -(r[1] + gap)], [dict(r[0]), r[1] + gap + width],
             [{draw(st.sampled_from(pool)): draw(st.sampled_from([1.0, -1.0]))}, big]]
        variant = draw(st.integers(0, 2))
        if variant == 1:
            # ... or on the right: a loose, heavily scaled copy of the violated row (implied by the left side)
            L = L[:2]
            kf = big / 4.0
            R = R + [[{k: v * kf for k, v in r[0].items()}, (r[1] + gap + 3.0) * kf]]
        elif variant == 2:
            # ... or the violated right-hand row itself has a huge negative constant (the witness of the left side misses it by far)
            L = draw(gens.termlist_s(pool, w, 1, 3))
            r2 = draw(gens.term_s(pool, w))
            R = [[dict(r2[0]), float(r2[1] - big * draw(st.sampled_from([1, 2, 10, 50])))]]
            cls += "/right"
    elif cls == "small-coefficient":
        # a coefficient of 2e-6..8e-6 next to an ordinary one; inside the box it moves the row by up to 8e-3, far beyond the tolerance
        eps = draw(st.sampled_from([5e-6, 8e-6, 2.0 ** -18, 2e-6])) * draw(st.sampled_from([1, -1]))
        c = float(draw(st.integers(-2, 3)))
        sg = 1.0 if eps > 0 else -1.0
        if draw(st.booleans()):
            # on the right: y <= c and |x| <= 1000 do not imply y + eps x <= c
            L = [[{"b": 1.0}, c], [{"a": 1.0}, 1000.0], [{"a": -1.0}, 1000.0]]
            R = [[{"b": 1.0, "a": eps}, c + draw(st.sampled_from([0.0, 0.001, 0.01]))]]
        else:
            # on the left: y + eps x <= c with sg*x >= 1000 implies y <= c - |eps|*1000
            L = [[{"b": 1.0, "a": eps}, c], [{"a": -sg}, -1000.0]]
            R = [[{"b": 1.0}, c - abs(eps) * 1000.0 * draw(st.sampled_from([1.0, 0.5, 2.0]))]]
    elif cls == "unrelated":
        R = draw(gens.termlist_s(pool, w, 1, 4))
    elif cls == "unbounded":
        L = L[:1]
        R = draw(gens.termlist_s(pool, w, 1, 2))
    elif cls == "infeasible-left":
        t = draw(st.sampled_from(L))
        L = L + [[{k: -v for k, v in t[0].items()}, -t[1] - draw(st.sampled_from([1, 2, 0.5]))]]
        R = draw(gens.termlist_s(pool, w, 1, 3))
    elif cls == "both-infeasible":
        t = draw(st.sampled_from(L))
        L = L + [[{k: -v for k, v in t[0].items()}, -t[1] - draw(st.sampled_from([1, 2, 0.5]))]]
        if draw(st.booleans()):
            R = list(draw(st.permutations(L)))
        else:
            R = draw(gens.termlist_s(pool, w, 1, 3))
            t = draw(st.sampled_from(R))
            R = R + [[{k: -v for k, v in t[0].items()}, -t[1] - draw(st.sampled_from([1, 2, 0.5]))]]
    elif cls == "infeasible-right":
        R = draw(gens.termlist_s(pool, w, 1, 3))
        t = draw(st.sampled_from(R))
        R = R + [[{k: -v for k, v in t[0].items()}, -t[1] - draw(st.sampled_from([1, 2, 0.5]))]]
    elif cls == "empty-right":
        R = []
    elif cls == "empty-left":
        R = L
        L = []
    else:  # equal-bounds: R = single-variable bounds that L meets with equality
        L, R = [], []
        for v in pool:
            b = float(w[v])
            L += [[{v: 1.0}, b], [{v: -1.0}, -b + draw(st.sampled_from([0, 1]))]]
            R.append([{v: draw(st.sampled_from([1.0, 2.0, 0.5]))}, 0.0])
            R[-1][1] = R[-1][0][v] * b
    if draw(st.integers(0, 9)) == 0:
        # a constraint without variables (0 <= c), as left behind when every variable of a term cancels: satisfied ones change
        # nothing, a violated one makes its side infeasible
        side = draw(st.sampled_from(["L", "R"]))
        c = float(draw(st.sampled_from([0, 1, 2, -1, -0.5, -2])))
        tgt = L if side == "L" else R
        tgt.insert(draw(st.integers(0, len(tgt))), [{}, c])
        cls += "+varfree-%s-%s" % (side, "sat" if c >= 0 else "viol")
    return cls, L, R, pool, w


def lp_hard_cases(entry, full=True):
    """every query derived from one mined solver-hard system: under each of the 8 sign patterns, the system against each of its
    rows and itself (full: against every non-empty sub-list) -> must be True; against each row pushed beyond the witness -> False"""
    import itertools
    for signs in gens.LP_SIGNS:
        L, w = gens.lp_hard_system(entry, signs)
        n = len(L)
        subs = [c for r in range(1, n + 1) for c in itertools.combinations(range(n), r)] if full else [(i,) for i in range(n)] + [tuple(range(n))]
        for sub in subs:
            yield {"kind": "tl", "cls": "lp-hard/sublist", "L": L, "R": [[dict(L[i][0]), L[i][1]] for i in sub], "via": "refines", "src": entry.get("file")}
        for k in range(n):
            lhs = gens.dot(L[k][0], w)
            yield {"kind": "tl", "cls": "lp-hard/beyond", "L": L, "R": [[dict(L[k][0]), float(lhs - max(1.0, abs(lhs)) * 0.01 - 1.0)]], "via": "refines",
                   "src": entry.get("file")}


def enumerate_cases(tier):
    for e in gens.lp_hard_corpus():
        yield from lp_hard_cases(e, full=(tier == "thorough"))


@st.composite
def _case(draw):
    kind = draw(st.sampled_from(["tl", "tl", "tl", "contract", "contract", "env", "impl", "iface"]))
    if kind == "tl":
        cls, L, R, pool, w = draw(_pair())
        case = {"kind": "tl", "cls": cls, "L": L, "R": R, "via": draw(st.sampled_from(["refines", "<="]))}
        if draw(st.integers(0, 3)) == 0:
            case["prime"] = draw(st.sampled_from(["left-looser", "right-tighter", "minus-one-two", "minus-one-two"]))
        return case
    if kind == "iface":
        ins, outs = ["a", "b"], ["x"]
        w = draw(gens.witness_s(ins + outs + ["y", "c"]))
        c1 = draw(gens.wild_contract_s(ins, outs, w))
        variant = draw(st.sampled_from(["extra-output", "extra-input", "swapped-role", "renamed", "same-permuted"]))
        if variant == "extra-output":
            i2, o2 = ins, outs + ["y"]
        elif variant == "extra-input":
            i2, o2 = ins + ["c"], outs
        elif variant == "swapped-role":
            i2, o2 = ["a"], ["x", "b"]
        elif variant == "renamed":
            i2, o2 = ["a", "c"], outs
        else:
            i2, o2 = list(reversed(ins)), outs
        c2 = draw(gens.wild_contract_s(i2, o2, w))
        return {"kind": "iface", "cls": variant, "c1": c1, "c2": c2, "via": draw(st.sampled_from(["refines", "<="]))}
    # contract-level: both over the same interface, sharing a witness
    ni = draw(st.integers(1, 2))
    ins, outs = ["a", "b"][:ni], ["x", "y"][:draw(st.integers(1, 2))]
    w = draw(gens.witness_s(ins + outs))
    base = draw(gens.wild_contract_s(ins, outs, w, na=(0, 2), ng=(1, 3)))
    cls = draw(st.sampled_from(["same", "weaker-a", "stronger-a", "weaker-g", "stronger-g", "g-under-a", "unrelated", "both"]))
    other = {"a": [list(t) for t in base["a"]], "g": [list(t) for t in base["g"]], "i": list(ins), "o": list(outs)}

    def loosen(ts):
        return [[dict(t[0]), t[1] + draw(st.sampled_from([0, 1, 2]))] for t in ts if draw(st.integers(0, 4)) > 0]

    def tighten(ts, pool):
        return ts + draw(gens.termlist_s(pool, w, 1, 2))
    if cls == "weaker-a":
        other["a"] = loosen(base["a"])
    elif cls == "stronger-a":
        other["a"] = tighten(base["a"], ins)
    elif cls == "weaker-g":
        other["g"] = loosen(base["g"])
    elif cls == "stronger-g":
        other["g"] = tighten(base["g"], ins + outs)
    elif cls == "g-under-a":
        # other's guarantee follows from base's guarantee only when other's assumption holds
        v = draw(st.sampled_from(ins))
        o = draw(st.sampled_from(outs))
        bound = float(w[v] + draw(st.sampled_from([0, 1, 2])))
        other["a"] = tighten(base["a"], ins) + [[{v: 1.0}, bound]]
        base = dict(base, g=base["g"] + [[{o: 1.0, v: -1.0}, float(w[o] - w[v] + 1)]])
        other["g"] = [[{o: 1.0}, float(w[o] - w[v] + 1 + bound + draw(st.sampled_from([0, 0, 1, -1])))]]
    elif cls == "unrelated":
        other = draw(gens.wild_contract_s(ins, outs, w))
    elif cls == "both":
        other["a"] = tighten(base["a"], ins)
        other["g"] = loosen(base["g"])
    if kind == "contract":
        swap = draw(st.booleans())
        c1, c2 = (other, base) if swap else (base, other)
        return {"kind": "contract", "cls": cls, "c1": c1, "c2": c2, "via": draw(st.sampled_from(["refines", "<="]))}
    comp = draw(st.sampled_from(["assumptions", "guarantees+assumptions", "tight", "random"]))
    pool = ins if kind == "env" else ins + outs
    if comp == "assumptions":
        component = [list(t) for t in base["a"]] or draw(gens.termlist_s(pool, w, 1, 2))
    elif comp == "guarantees+assumptions":
        component = [list(t) for t in base["g"] + base["a"]]
    elif comp == "tight":
        component = [list(t) for t in (base["a"] if kind == "env" else base["g"])] + draw(gens.termlist_s(pool, w, 1, 2))
    else:
        component = draw(gens.termlist_s(pool, w, 1, 3))
    return {"kind": kind, "cls": comp, "c1": base, "component": component}


def strategy(tier):
    return _case()


def _judge(op, got, expected, L, R, labels, nontrivial_shape):
    if expected is None:
        return {"viol": None, "nontrivial": False, "labels": labels + ["grey-skipped"], "outcome": "grey"}
    labels = labels + ["expected-%s" % expected]
    viol = None
    if bool(got) != expected:
        allt = []
        for side in (L, R):
            allt += (side["a"] + side["g"]) if isinstance(side, dict) else list(side)
        viol = {"what": "%s answered %s but exact containment is %s" % (op, got, expected),
                "sig": {"kind": "wrong-answer", "op": op, "expected": expected, "ill_conditioned": ill_conditioned(allt)},
                "detail": {"left": L, "right": R}}
    return {"viol": viol, "nontrivial": nontrivial_shape, "labels": labels, "outcome": "judged"}


def run_case(case):
    kind = case["kind"]
    labels = ["kind:" + kind, "class:%s/%s" % (kind, case["cls"])]
    if kind == "tl":
        L, R = case["L"], case["R"]
        tl, tr = env.TL(L), env.TL(R)
        if case.get("prime") and L and R:
            # an earlier query on a near twin (numbers changed in the 5th significant digit, so that it prints identically) must not
            # influence the judged query
            def nudge(ts, up):
                return [[dict(t[0]), t[1] + (3e-5 * abs(t[1]) + 3e-5) * (1 if up else -1)] for t in ts]
            def swap12(ts):
                f = lambda x: -2.0 if x == -1 else (-1.0 if x == -2 else x)  # noqa: E731  (hash(-1.0) == hash(-2.0) in CPython)
                return [[{k: f(v) for k, v in t[0].items()}, f(t[1])] for t in ts]
            if case["prime"] == "minus-one-two":
                env.call("termlist.refines", env.TL(swap12(L)).refines, tr)
                env.call("termlist.refines", tl.refines, env.TL(swap12(R)))
            elif case["prime"] == "left-looser":
                env.call("termlist.refines", env.TL(nudge(L, True)).refines, tr)
            else:
                env.call("termlist.refines", tl.refines, env.TL(nudge(R, False)))
            labels.append("primed:" + case["prime"])
        st_, got = env.call("termlist.refines", (lambda: tl.refines(tr)) if case["via"] == "refines" else (lambda: tl <= tr))
        if st_ == "refused":
            return {"viol": {"what": "termlist refines raised %r" % got,
                             "sig": {"kind": "refines-raised", "type": type(got).__name__, "ill_conditioned": ill_conditioned(L + R)}, "detail": {}},
                    "nontrivial": False, "labels": labels}
        exp = classify(L, R)
        nvars = len({n for t in L + R for n in t[0]})
        shape = bool(L) and bool(R) and exact.feasible([exact.conj(L)]) and (nvars >= 2 or len(L) + len(R) >= 3)
        return _judge("termlist.refines", got, exp, L, R, labels, shape)
    if kind == "iface":
        s1, c1 = env.call("construct", env.C, case["c1"])
        s2, c2 = env.call("construct", env.C, case["c2"])
        if s1 != "ok" or s2 != "ok":
            return {"viol": None, "nontrivial": False, "labels": labels + ["construction-refused"]}
        same = set(case["c1"]["i"]) == set(case["c2"]["i"]) and set(case["c1"]["o"]) == set(case["c2"]["o"])
        try:
            got = c1.refines(c2) if case["via"] == "refines" else (c1 <= c2)
            raised = None
        except env.IncompatibleArgsError as e:
            raised = e
        except ValueError as e:
            raised = e
        viol = None
        if not same and not isinstance(raised, env.IncompatibleArgsError):
            viol = {"what": "refinement across different interfaces did not raise IncompatibleArgsError (got %r)" % (raised if raised else got),
                    "sig": {"kind": "iface-mismatch-not-rejected"}, "detail": {}}
        if same and raised is not None:
            viol = {"what": "refinement over equal interfaces (listed in another order) raised %r" % raised,
                    "sig": {"kind": "same-iface-rejected"}, "detail": {}}
        return {"viol": viol, "nontrivial": True, "labels": labels, "outcome": "judged"}
    s1, c1 = env.call("construct", env.C, case["c1"])
    if s1 != "ok":
        return {"viol": None, "nontrivial": False, "labels": labels + ["construction-refused"]}
    d1 = env.c_data(c1)
    if kind == "contract":
        s2, c2 = env.call("construct", env.C, case["c2"])
        if s2 != "ok":
            return {"viol": None, "nontrivial": False, "labels": labels + ["construction-refused"]}
        d2 = env.c_data(c2)
        st_, got = env.call("contract.refines", (lambda: c1.refines(c2)) if case["via"] == "refines" else (lambda: c1 <= c2))
        if st_ == "refused":
            return {"viol": {"what": "contract refines raised %r on equal interfaces" % got, "sig": {"kind": "refines-raised", "type": type(got).__name__}, "detail": {}},
                    "nontrivial": False, "labels": labels}
        e1 = classify(d2["a"], d1["a"]) if d1["a"] else True
        if not d2["a"] and d1["a"]:
            e1 = False
        e2 = classify(d1["g"] + d2["a"], d2["g"] + d2["a"])
        if e1 is False or e2 is False:
            exp = False
        elif e1 is None or e2 is None:
            exp = None
        else:
            exp = True
        # the code's own short-cuts for empty lists are part of the semantics (whole space vs. half-spaces)
        return _judge("contract.refines", got, exp, {"a": d1["a"], "g": d1["g"]}, {"a": d2["a"], "g": d2["g"]},
                      labels + ["assumptions-%s" % e1, "guarantees-%s" % e2], True)
    comp = case["component"]
    ctl = env.TL(comp)
    if kind == "env":
        st_, got = env.call("contains_environment", c1.contains_environment, ctl)
        L, R = comp, d1["a"]
    else:
        st_, got = env.call("contains_implementation", c1.contains_implementation, ctl)
        L, R = comp + d1["a"], d1["g"] + d1["a"]
    if st_ == "refused":
        return {"viol": {"what": "%s raised %r" % (kind, got), "sig": {"kind": "refines-raised", "type": type(got).__name__}, "detail": {}},
                "nontrivial": False, "labels": labels}
    exp = classify(L, R) if R else True
    if R and not L:
        exp = False
    return _judge("contains_" + ("environment" if kind == "env" else "implementation"), got, exp, L, R, labels, bool(R))
