"""C04  Variable elimination is implication-preserving for every tactic order."""
import itertools

from hypothesis import strategies as st

from pv import env, exact, gens

ID = "C04"
LEVEL = "exploration"
UNDOC_IS_VIOLATION = True   # "a tactic that cannot achieve it must decline (...), never return something else"
N = {"quick": 1350, "thorough": 9000}
RULE = ("cases = (term list, context, variables to eliminate, refine|relax, simplify, tactics_order); random part drawn "
        "by Hypothesis from shape classes random/elimonly/chain/bounds/degenerate with witness-derived constants, "
        "grid part enumerated over small integer coefficients; non-trivial = the call returned and at least one entry of "
        "the returned tactic statistics has a tactic number > 0 (a tactic really transformed a term); distinct = SHA-1 of the case")
ASSUMPTIONS = ["refine oracle: context AND result => every original term; relax oracle: context AND original => every "
               "result term and no eliminated variable left; box |v|<=1000, tolerance 1e-4*(1+|c|)"]
EXHAUSTIVE = {"quick": False, "thorough": False}


@st.composite
def _mixed_magnitude(draw):
    """tactic 4 only (pure substitution, exact arithmetic, no LP): coefficients 1e-4..1e-3 next to 1e5..1e6 in one term"""
    eps = draw(st.sampled_from([1e-4, 1e-3, 5e-4]))
    big = draw(st.sampled_from([1e5, 1e6, 2.5e5]))
    sg = draw(st.sampled_from([1, -1]))
    c = float(draw(st.integers(-3, 3)))
    term = [{"x": draw(st.sampled_from([1, -1])) * eps, "y": float(sg)}, c]
    ctx = [[{"y": float(sg), "u": -big * draw(st.sampled_from([1, -1]))}, float(draw(st.integers(0, 2)))]]
    if draw(st.booleans()):
        ctx.append([{"z": 1.0, "x": 1.0}, 5.0])
    if draw(st.integers(0, 2)) == 0:
        # the other way round: a context row whose second coefficient is below 1e-6 of the first, and a large coefficient on the
        # eliminated variable in the term, so that the small part matters (any single tactic or the default order)
        tiny = draw(st.sampled_from([8e-7, 2.0 ** -21, 5e-7]))
        k = draw(st.sampled_from([5e4, 1e5, 2.5e5]))
        refine = draw(st.booleans())
        s1 = 1.0 if refine else -1.0
        term = [{"x": 1.0, "y": k}, float(draw(st.integers(5, 12)))]
        ctx = [[{"y": s1, "u": -s1 * tiny * draw(st.sampled_from([1, -1]))}, s1 * 1e-4]]
        return {"terms": [term], "ctx": ctx, "elim": ["y"], "refine": refine, "simplify": draw(st.booleans()),
                "order": draw(st.sampled_from([None, [1], [3], [4], [5]])), "shape": "mixed-magnitude"}
    return {"terms": [term], "ctx": ctx, "elim": ["y"], "refine": True, "simplify": False, "order": [4], "shape": "mixed-magnitude"}


@st.composite
def _kaykobad(draw):
    """one term with 2-4 eliminated variables and a context shaped like a Kaykobad system: per eliminated variable a row with a
    dominant same-sign (refine) / opposite-sign (relax) diagonal entry, small off-diagonal entries, and kept variables"""
    ne = draw(st.integers(2, 4))
    elim = gens.NAMES[:ne]
    kept = gens.NAMES[ne:ne + draw(st.integers(1, 2))]
    pool = elim + kept
    w = draw(gens.witness_s(pool))
    refine = draw(st.booleans())
    sgn = draw(st.sampled_from([1, -1]))
    rs = sgn if refine else -sgn
    q = {e: sgn * draw(st.sampled_from([1, 2, 3, 1.5])) for e in elim}
    for k in kept:
        if draw(st.booleans()):
            q[k] = draw(gens.coef_s())
    term = [q, float(gens.dot(q, w) + draw(st.sampled_from(gens.SLACKS)))]
    ctx = []
    for e in elim:
        row = {e: rs * draw(st.sampled_from([1, 2, 3, 4]))}
        for f in elim:
            if f != e and draw(st.integers(0, 2)) > 0:
                row[f] = rs * draw(st.sampled_from([0.25, 0.5, 1, 1, 2]))
        if draw(st.integers(0, 2)) > 0:
            row[draw(st.sampled_from(kept))] = draw(gens.coef_s())
        ctx.append([row, float(gens.dot(row, w) + draw(st.sampled_from(gens.SLACKS)))])
    if draw(st.booleans()):
        ctx += draw(gens.termlist_s(pool, w, 1, 2))
    ctx = list(draw(st.permutations(ctx)))
    terms = [term] + (draw(gens.termlist_s(pool, w, 0, 1)))
    return {"terms": terms, "ctx": ctx, "elim": elim, "refine": refine, "simplify": draw(st.booleans()),
            "order": draw(st.sampled_from([None, [1], [3], [1, 2, 3, 4, 5], [3, 1], [1, 5]])), "shape": "kaykobad"}


@st.composite
def _case(draw, shapes=("random", "random", "elimonly", "chain", "bounds", "bounds", "degenerate"), kay=True):
    if kay and draw(st.integers(0, 5)) == 0:
        return draw(_kaykobad())
    if kay and draw(st.integers(0, 24)) == 0:
        return draw(_mixed_magnitude())
    nv = draw(st.integers(2, 6))
    pool = gens.NAMES[:nv]
    shape = draw(st.sampled_from(list(shapes)))
    nel = draw(st.integers(1, min(3, nv - 1)))
    if shape == "chain":
        nel = min(max(nel, 2), nv - 1) if nv >= 3 else 1
    elim = pool[:nel] if draw(st.booleans()) else draw(st.lists(st.sampled_from(pool), min_size=nel, max_size=nel, unique=True))
    kept = [v for v in pool if v not in elim]
    w = draw(gens.witness_s(pool)) if draw(st.integers(0, 9)) > 0 else None
    nt = draw(st.integers(1, 4))
    terms = []
    for _ in range(nt):
        if draw(st.integers(0, 3)) > 0:
            terms.append(draw(gens.term_s(pool, w, must=draw(st.sampled_from(elim)))))
        else:
            terms.append(draw(gens.term_s(pool, w)))
    ctx = []
    if shape == "random":
        ctx = draw(gens.termlist_s(pool, w, 0, 5))
    elif shape == "elimonly":
        ctx = draw(gens.termlist_s(elim, w, 1, 4, kmax=2))
        ctx += draw(gens.termlist_s(pool, w, 0, 2))
    elif shape == "chain":
        # x bounded through y (both eliminated), y bounded through a kept variable
        for i, e in enumerate(elim):
            nxt = elim[i + 1] if i + 1 < len(elim) else (draw(st.sampled_from(kept)) if kept else None)
            for _ in range(draw(st.integers(1, 2))):
                co = {e: draw(gens.coef_s())}
                if nxt is not None:
                    co[nxt] = draw(gens.coef_s())
                c = (gens.dot(co, w) + draw(st.sampled_from(gens.SLACKS))) if w else draw(st.integers(-5, 5))
                ctx.append([co, float(c)])
        ctx += draw(gens.termlist_s(pool, w, 0, 1))
    else:  # bounds / degenerate
        for e in elim:
            for _ in range(draw(st.integers(1, 3))):
                co = {e: draw(gens.coef_s())}
                if kept and draw(st.booleans()):
                    co[draw(st.sampled_from(kept))] = draw(gens.coef_s())
                if len(elim) > 1 and draw(st.integers(0, 3)) == 0:
                    co[draw(st.sampled_from(elim))] = draw(gens.coef_s())
                sl = [0] if shape == "degenerate" else gens.SLACKS
                c = (gens.dot(co, w) + draw(st.sampled_from(sl))) if w else draw(st.integers(-5, 5))
                ctx.append([co, float(c)])
        if shape == "degenerate" and ctx:
            for _ in range(draw(st.integers(1, 2))):
                src = draw(st.sampled_from(ctx))
                f = draw(st.sampled_from([1, 2, 0.5]))
                ctx.append([{k: v * f for k, v in src[0].items()}, src[1] * f])
    ctx = draw(st.permutations(ctx)) if len(ctx) > 1 else ctx
    return {"terms": terms, "ctx": list(ctx), "elim": list(elim), "refine": draw(st.booleans()),
            "simplify": draw(st.booleans()), "order": draw(gens.order_s()), "shape": shape}


def strategy(tier):
    return _case()


def deep_strategy():
    """the shapes that reach the rarely executed branches of the tactics (used by C14 with extra weight)"""
    return st.one_of(_case(("chain", "chain", "degenerate", "elimonly"), kay=False), _kaykobad())


# ---- bounded-exhaustive grid --------------------------------------------------
GRID_T = [-1, 0, 1, 2]
GRID_C = [-1, 0, 1]


def _grid_terms():
    out = []
    for cx, cy, cz in itertools.product([-1, 1, 2], GRID_T, [0, 1]):
        for k in (0, 1):
            co = {n: float(v) for n, v in (("x", cx), ("y", cy), ("z", cz)) if v != 0}
            out.append([co, float(k)])
    return out


def _grid_ctx_terms():
    out = []
    for cx, cy, cz in itertools.product(GRID_C, GRID_C, GRID_C):
        if (cx, cy, cz) == (0, 0, 0):
            continue
        co = {n: float(v) for n, v in (("x", cx), ("y", cy), ("z", cz)) if v != 0}
        for k in (0, 1):
            out.append([co, float(k)])
    return out


def enumerate_cases(tier):
    """term x {0,1,2 context terms} x elim in {[x],[x,y]} x singleton orders x refine/relax.
    thorough: a fixed 1/3 stride of the grid (~440k calls); quick: 1/400 stride."""
    ids = [i for i in gens.tactic_ids() if i != 6]
    terms = _grid_terms()
    cts = _grid_ctx_terms()
    ctxs = [[]] + [[c] for c in cts] + [[c1, c2] for c1, c2 in itertools.combinations(cts, 2)]
    stride = 397 if tier == "quick" else 3
    idx = 0
    for t in terms:
        for ctx in ctxs:
            for elim in (["x"], ["x", "y"]):
                for refine in (True, False):
                    for o in ids:
                        idx += 1
                        if idx % stride:
                            continue
                        yield {"terms": [t], "ctx": ctx, "elim": elim, "refine": refine, "simplify": False,
                               "order": [o], "shape": "grid"}


def run_case(case):
    terms, ctx = env.TL(case["terms"]), env.TL(case["ctx"])
    ev = [env.Var(v) for v in case["elim"]]
    order = None if case["order"] is None else list(case["order"])
    mode = "refine" if case["refine"] else "relax"
    fn = terms.elim_vars_by_refining if case["refine"] else terms.elim_vars_by_relaxing
    labels = ["shape:" + case.get("shape", "?"), "mode:" + mode, "order:" + ("default" if order is None else ("single-%d" % order[0] if len(order) == 1 else "multi"))]
    status, res = env.call("elim_vars_by_" + ("refining" if case["refine"] else "relaxing"), fn, ctx, ev, case["simplify"], order)
    if status == "refused":
        return {"viol": None, "nontrivial": False, "labels": labels + ["declined"], "outcome": "declined(ValueError)"}
    out, stats = res
    used = sorted({int(s[0]) for s in stats if s[0] > 0})
    labels += ["tactic-%d-succeeded" % u for u in used] or ["no-tactic-succeeded"]
    rdata = env.tl_data(out)
    names = sorted(set(gens.NAMES) | {n for t in case["terms"] + case["ctx"] for n in t[0]})
    viol = None
    if case["refine"]:
        bad = exact.find_violation([exact.conj(case["ctx"]), exact.conj(rdata)], case["terms"], names)
        if bad:
            viol = {"what": "refining result together with the context does not imply original term %s" % bad["term"],
                    "sig": {"kind": "unsound-refinement", "tactics": used}, "detail": dict(bad, result=rdata)}
    else:
        left = sorted({n for t in rdata for n in t[0]} & set(case["elim"]))
        if left:
            viol = {"what": "relaxation result still mentions eliminated variables %s" % left,
                    "sig": {"kind": "leftover-after-relaxing"}, "detail": {"result": rdata}}
        else:
            bad = exact.find_violation([exact.conj(case["ctx"]), exact.conj(case["terms"])], rdata, names)
            if bad:
                viol = {"what": "relaxation result term %s is not implied by original terms and context" % bad["term"],
                        "sig": {"kind": "unsound-relaxation", "tactics": used}, "detail": dict(bad, result=rdata)}
    return {"viol": viol, "nontrivial": bool(used), "labels": labels, "outcome": "returned"}
