"""C18  Plot vertices are exactly the corners of the plotted slice."""
import math
from fractions import Fraction as F

from hypothesis import strategies as st

from pv import env, gens

ID = "C18"
UNDOC_IS_VIOLATION = True   # "It raises ValueError when the slice is empty or when a needed variable has no value": no other exception type
LEVEL = "exploration"
N = {"quick": 1800, "thorough": 6000}
RULE = ("cases = (constraint list over 2-4 variables with small-integer coefficients, two plot variables, integer values for the "
        "others, integer axis limits in [-5,5]) built around a witness inside the limits so that polygons, segments, points and empty "
        "slices occur; also a missing value; plot variables listed first or second; oracle: exact rational vertex enumeration (pairwise "
        "line intersections filtered by all half-planes): returned points de-duplicated at 1e-6 must equal the exact corners, satisfy "
        "every constraint within 1e-6 and be in cyclic angular order; ValueError iff the slice is empty or a needed value is missing; "
        "non-trivial = the slice is non-empty and at least one generated constraint (not only the limits) is active at a corner; "
        "distinct = SHA-1 of the case")
ASSUMPTIONS = ["either orientation of the angular order is accepted"]
TOL = 1e-6


@st.composite
def _case(draw):
    others = ["u", "v"][:draw(st.integers(0, 2))]
    xl = draw(st.integers(-5, 3))
    xh = draw(st.integers(xl + 1, 5))
    yl = draw(st.integers(-5, 3))
    yh = draw(st.integers(yl + 1, 5))
    w = {"x": draw(st.integers(xl, xh)), "y": draw(st.integers(yl, yh))}
    vals = {o: draw(st.integers(-5, 5)) for o in others}
    w.update(vals)
    pool = ["x", "y"] + others
    shape = draw(st.sampled_from(["polygon", "polygon", "ngon", "ngon", "segment", "point", "empty", "missing"]))
    terms = []
    if shape == "ngon":
        # corner-cutting constraints around the origin: up to 8 corners
        xl, xh, yl, yh = -draw(st.integers(2, 5)), draw(st.integers(2, 5)), -draw(st.integers(2, 5)), draw(st.integers(2, 5))
        w.update(x=0, y=0)
        dirs = draw(st.lists(st.sampled_from([(1, 1), (1, -1), (-1, 1), (-1, -1), (2, 1), (-1, 2), (1, -2), (-2, -1)]), min_size=1, max_size=5, unique=True))
        for dx, dy in dirs:
            co = {"x": float(dx), "y": float(dy)}
            if others and draw(st.integers(0, 2)) == 0:
                co[others[0]] = float(draw(st.sampled_from([1, -1])))
            terms.append([co, float(gens.dot(co, w) + draw(st.integers(2, 7)))])
        shape = "polygon"
    for _ in range(draw(st.integers(1, 5)) if not terms else 0):
        t = draw(gens.term_s(pool, w, kmax=3, dyadic=False, slacks=[0, 1, 1, 2, 3]))
        if draw(st.booleans()):
            t = [dict(reversed(list(t[0].items()))), t[1]]
        terms.append(t)
    if shape in ("segment", "point"):
        co = {"x": float(draw(st.sampled_from([1, -1, 2, 0]))), "y": float(draw(st.sampled_from([1, -1, 1, 2])))}
        co = {k: v for k, v in co.items() if v != 0}
        c = gens.dot(co, w)
        terms += [[co, float(c)], [{k: -v for k, v in co.items()}, float(-c)]]
        if shape == "point":
            co2 = {"x": 1.0} if "y" in co else {"y": 1.0}
            if "x" in co and "y" in co:
                co2 = {"x": 1.0, "y": float(-co["x"] / co["y"] + 3)}
            c2 = gens.dot(co2, w)
            terms += [[co2, float(c2)], [{k: -v for k, v in co2.items()}, float(-c2)]]
    elif shape == "empty":
        src = draw(st.sampled_from(terms))
        terms.append([{k: -v for k, v in src[0].items()}, -src[1] - draw(st.sampled_from([1, 2]))])
    elif shape == "missing" and others:
        need = [o for o in others if any(o in t[0] for t in terms)]
        if need:
            vals.pop(need[0])
            if draw(st.booleans()):
                # ... while one of the two plot variables does not occur in any constraint
                ax = draw(st.sampled_from(["x", "y"]))
                terms = [[{k: v for k, v in t[0].items() if k != ax}, t[1]] for t in terms]
                terms = [t for t in terms if t[0]]
                if not any(need[0] in t[0] for t in terms):
                    terms.append([{need[0]: 1.0, ("y" if ax == "x" else "x"): 1.0}, 3.0])
        else:
            shape = "polygon"
    else:
        shape = "polygon" if shape == "missing" else shape
    if others and shape in ("polygon", "segment", "point") and draw(st.integers(0, 5)) == 0:
        # a constraint over the fixed variables only: slack, exactly tight, violated by 2^-21 (about 5e-7) or clearly violated
        o = draw(st.sampled_from(others))
        k = float(draw(st.sampled_from([1, -1, 2, 0.5])))
        how = draw(st.sampled_from(["slack", "tight", "tight", "tiny-violated", "tiny-violated", "violated"]))
        co = {o: k}
        if len(others) > 1 and draw(st.booleans()):
            co[[q for q in others if q != o][0]] = float(draw(st.sampled_from([1, -1])))
        base = gens.dot(co, vals)
        if how == "tiny-violated" and draw(st.booleans()):
            vals[o] = vals[o] + (2.0 ** -21) * (1 if k > 0 else -1)     # the value, not the constant, is off by a hair
            terms.append([co, float(base)])
        else:
            terms.append([co, float(base + {"slack": 1, "tight": 0, "tiny-violated": -2.0 ** -21, "violated": -1}[how])])
        shape = shape + "+fixed-" + how
    terms = list(draw(st.permutations(terms)))
    return {"terms": terms, "vals": vals, "xlim": [xl, xh], "ylim": [yl, yh], "shape": shape, "prime": draw(st.integers(0, 2)) == 0}


def strategy(tier):
    return _case()


def exact_corners(case):
    """returns ('missing'|'empty'|'ok', corners as list of (Fraction,Fraction), halfplanes)"""
    vals = {k: F(v) for k, v in case["vals"].items()}
    hp = []
    for t in case["terms"]:
        a = F(t[0].get("x", 0))
        b = F(t[0].get("y", 0))
        c = F(t[1])
        for k, v in t[0].items():
            if k in ("x", "y"):
                continue
            if k not in vals:
                return "missing", [], []
            c -= F(v) * vals[k]
        if a == 0 and b == 0:
            if c < 0:
                return "empty", [], []
            continue
        hp.append((a, b, c, True))
    (xl, xh), (yl, yh) = case["xlim"], case["ylim"]
    hp += [(F(1), F(0), F(xh), False), (F(-1), F(0), F(-xl), False), (F(0), F(1), F(yh), False), (F(0), F(-1), F(-yl), False)]
    pts = {}
    for i in range(len(hp)):
        for j in range(i + 1, len(hp)):
            a1, b1, c1, g1 = hp[i]
            a2, b2, c2, g2 = hp[j]
            det = a1 * b2 - a2 * b1
            if det == 0:
                continue
            x = (c1 * b2 - c2 * b1) / det
            y = (a1 * c2 - a2 * c1) / det
            if all(a * x + b * y <= c for a, b, c, _ in hp):
                pts[(x, y)] = pts.get((x, y), False) or g1 or g2
    if not pts:
        return "empty", [], hp
    return "ok", pts, hp


def run_case(case):
    from pacti.utils.plots import constraints_to_vertices
    labels = ["shape:" + case["shape"]]
    tl = env.TL(case["terms"])
    if case.get("prime"):
        # an earlier query on the same constraint-list object with a different (smaller) window must not influence this one
        (xl, xh), (yl, yh) = case["xlim"], case["ylim"]
        env.call("constraints_to_vertices", constraints_to_vertices, tl, env.Var("x"), env.Var("y"),
                 {env.Var(k): v for k, v in case["vals"].items()}, (xl, (xl + xh) / 2), ((yl + yh) / 2, yh))
        labels.append("primed")
    status, res = env.call("constraints_to_vertices", constraints_to_vertices, tl, env.Var("x"), env.Var("y"),
                           {env.Var(k): v for k, v in case["vals"].items()}, tuple(case["xlim"]), tuple(case["ylim"]))
    kind, corners, hp = exact_corners(case)
    labels.append("exact:" + kind)
    viol = None
    if kind in ("missing", "empty"):
        if status == "ok":
            viol = {"what": "vertex routine returned %r although %s" % (res, "a needed variable has no value" if kind == "missing" else "the slice is empty"),
                    "sig": {"kind": "no-error-on-" + kind}, "detail": {}}
        return {"viol": viol, "nontrivial": False, "labels": labels, "outcome": "judged"}
    labels.append("corners:%d" % min(len(corners), 9))
    if status != "ok":
        viol = {"what": "vertex routine raised %s for a non-empty slice with %d corner(s)" % (type(res).__name__, len(corners)),
                "sig": {"kind": "raised-on-nonempty", "corners": min(len(corners), 3)}, "detail": {"message": str(res)[:200]}}
        return {"viol": viol, "nontrivial": True, "labels": labels, "outcome": "judged"}
    xs, ys = res
    got = []
    for x, y in zip(xs, ys):
        x, y = float(x), float(y)
        if not any(abs(x - gx) <= TOL and abs(y - gy) <= TOL for gx, gy in got):
            got.append((x, y))
    ex = [(float(x), float(y)) for x, y in corners]
    for (x, y) in got:
        for a, b, c, _ in hp:
            if float(a) * x + float(b) * y > float(c) + TOL * (1 + abs(float(c))):
                viol = {"what": "returned point (%g,%g) violates a constraint" % (x, y), "sig": {"kind": "vertex-outside"}, "detail": {"returned": got, "exact": ex}}
    if viol is None:
        missing = [p for p in ex if not any(abs(p[0] - q[0]) <= TOL and abs(p[1] - q[1]) <= TOL for q in got)]
        extra = [q for q in got if not any(abs(p[0] - q[0]) <= TOL and abs(p[1] - q[1]) <= TOL for p in ex)]
        if missing:
            viol = {"what": "corner(s) %s missing from the returned vertices" % missing, "sig": {"kind": "corner-missing", "degenerate": len(ex) <= 2}, "detail": {"returned": got, "exact": ex}}
        elif extra:
            viol = {"what": "returned point(s) %s are not corners of the slice" % extra, "sig": {"kind": "non-corner-returned", "degenerate": len(ex) <= 2}, "detail": {"returned": got, "exact": ex}}
    if viol is None and len(got) >= 3:
        cx = sum(p[0] for p in got) / len(got)
        cy = sum(p[1] for p in got) / len(got)
        ang = [math.atan2(p[1] - cy, p[0] - cx) for p in got]
        n = len(ang)

        def cyclic_increasing(seq):
            drops = sum(1 for i in range(n) if seq[(i + 1) % n] < seq[i])
            return drops <= 1
        if not (cyclic_increasing(ang) or cyclic_increasing([-a for a in ang])):
            viol = {"what": "returned vertices are not in angular order", "sig": {"kind": "not-angular-order"}, "detail": {"returned": got}}
    nontrivial = any(corners.values())
    return {"viol": viol, "nontrivial": nontrivial, "labels": labels, "outcome": "judged"}
