"""C11  Behaviour membership and emptiness agree with exact arithmetic."""
from fractions import Fraction as F

from hypothesis import strategies as st

from pv import env, exact, gens

ID = "C11"
LEVEL = "exploration"
N = {"quick": 2800, "thorough": 12000}
RULE = ("cases: (constraint list, dyadic behaviour) with the behaviour placed on / just inside / just outside (2^-6) a chosen "
        "constraint boundary or random, tiny coefficients (2^-41..2^-30) times huge values with every key order of the behaviour, behaviours missing a constrained variable, behaviours with extra variables, emptiness "
        "queries on feasible / infeasible / thin systems (margins 0, 1e-3, 1e-2, 1) optionally with unrelated rows of magnitude 2^-10..1e6, mined solver-hard systems (corpus/lp_hard), and refinement-consistency pairs L within R; "
        "expected answers by Fraction evaluation and exact feasibility; non-trivial = list has >= 2 terms or >= 2 variables and "
        "the case was judged; distinct = SHA-1 of the case")
ASSUMPTIONS = ["emptiness is judged only when robust: exactly feasible => must be non-empty; infeasible even after relaxing every constant by 1e-4 => must be empty"]

P = gens.NAMES[:5]
POW2 = {1.0, -1.0, 2.0, -2.0, 0.5, -0.5, 4.0, -4.0, 0.25, -0.25}
DY = [0, 1, -1, 2, -2, 0.5, -0.5, 3, -3, 0.25, 1.5, -1.5, 4, -4, 0.75, 5, -5]


@st.composite
def _member(draw):
    nv = draw(st.integers(1, 5))
    pool = P[:nv]
    w = draw(gens.witness_s(pool)) if draw(st.booleans()) else None
    terms = draw(gens.termlist_s(pool, w, 1, 5))
    beh = {v: float(draw(st.sampled_from(DY))) for v in pool}
    place = draw(st.sampled_from(["on", "inside", "outside", "random", "witness"]))
    if place == "witness" and w is not None:
        beh = {v: float(w[v]) for v in pool}
    elif place in ("on", "inside", "outside"):
        t = draw(st.sampled_from(terms))
        cands = [v for v, a in t[0].items() if float(a) in POW2]
        if cands:
            v = draw(st.sampled_from(cands))
            a = F(t[0][v])
            rest = sum((F(c) * F(beh[n]) for n, c in t[0].items() if n != v), F(0))
            off = {"on": F(0), "inside": -F(1, 64), "outside": F(1, 64)}[place]
            val = (F(t[1]) + off - rest) / a
            beh[v] = float(val)
        else:
            place = "random"
    if draw(st.integers(0, 11)) == 0:
        # a tiny coefficient (2^-41..2^-30) on a variable with a huge value (2^40..2^51): the product decides membership; the
        # order of the keys in the behaviour varies (values are substituted one at a time)
        t = draw(st.sampled_from(terms))
        v = draw(st.sampled_from(pool))
        k = draw(st.sampled_from([41, 38, 34, 30]))
        t[0][v] = 2.0 ** -k * draw(st.sampled_from([1, -1]))
        beh[v] = 2.0 ** (k + draw(st.sampled_from([4, 6, 10]))) * draw(st.sampled_from([1, -1]))
        place = "tiny-times-huge"
    beh = {n: beh[n] for n in draw(st.permutations(sorted(beh)))}
    variant = draw(st.sampled_from(["exact", "exact", "exact", "missing", "extra"]))
    if variant == "missing":
        used = sorted({n for t in terms for n in t[0]})
        beh.pop(draw(st.sampled_from(used)))
    elif variant == "extra":
        beh["q"] = float(draw(st.sampled_from(DY)))
    scheme = draw(st.sampled_from(["plain", "plain", "plain", "prefix", "symbols", "shapes"]))
    if scheme != "plain":
        # unusual variable names (prefixes of one another, look-alikes of numbers and symbols, underscores / long names)
        m = gens.NAME_SCHEMES[scheme]
        terms = gens.rename_terms(terms, m)
        beh = {m.get(k, k): v for k, v in beh.items()}
    return {"kind": "member", "terms": terms, "beh": beh, "place": place, "variant": variant, "names": scheme}


@st.composite
def _empty(draw):
    nv = draw(st.integers(1, 4))
    pool = P[:nv]
    w = draw(gens.witness_s(pool))
    terms = draw(gens.termlist_s(pool, w, 1, 5))
    cls = draw(st.sampled_from(["feasible", "infeasible", "thin"]))
    if cls != "feasible":
        src = draw(st.sampled_from(terms))
        mg = draw(st.sampled_from([1, 2, 0.5])) if cls == "infeasible" else draw(st.sampled_from([0, 1e-3, -1e-3, 1e-2, -1e-2, 2 ** -7]))
        terms = terms + [[{k: -v for k, v in src[0].items()}, -src[1] - mg]]
        terms = list(draw(st.permutations(terms)))
    if draw(st.integers(0, 2)) == 0:
        # rows of a very different magnitude that do not change the answer: a bound on a fresh variable, or a scaled-up copy
        # of a direction the witness satisfies
        for _ in range(draw(st.integers(1, 2))):
            k = float(draw(st.sampled_from([2 ** 10, 2 ** 14, 2 ** 17, 1e4, 1e6, 2 ** -10])))
            if draw(st.booleans()):
                terms = terms + [[{"q": k * draw(st.sampled_from([1, -1]))}, float(draw(st.sampled_from([1, 0, -1, 1024])))]]
            else:
                v = draw(st.sampled_from(pool))
                sg = draw(st.sampled_from([1, -1]))
                terms = terms + [[{v: k * sg}, k * sg * float(w[v]) + k * draw(st.sampled_from([0, 1, 4]))]]
        terms = list(draw(st.permutations(terms)))
        cls += "+mixed-scale"
    return {"kind": "empty", "terms": terms, "cls": cls}


def lp_hard_cases(entry):
    """emptiness queries derived from one mined solver-hard system under each of the 8 sign patterns: the system itself (non-empty,
    exact witness) and the system with one row turned against the witness by a clear margin (empty)"""
    for signs in gens.LP_SIGNS:
        terms, w = gens.lp_hard_system(entry, signs)
        yield {"kind": "empty", "terms": terms, "cls": "lp-hard-feasible", "src": entry.get("file")}
        for k, t in enumerate(terms):
            for f in (0.01, 0.5):
                neg = [{n: -v for n, v in t[0].items()}, float(-t[1] - max(1.0, abs(t[1])) * f - 1.0)]
                yield {"kind": "empty", "terms": terms[:k + 1] + [neg] + terms[k + 1:], "cls": "lp-hard-infeasible", "src": entry.get("file")}


def enumerate_cases(tier):
    for e in gens.lp_hard_corpus():
        yield from lp_hard_cases(e)


@st.composite
def _consistency(draw):
    nv = draw(st.integers(1, 4))
    pool = P[:nv]
    w = draw(gens.witness_s(pool))
    L = draw(gens.termlist_s(pool, w, 1, 4))
    R = []
    for _ in range(draw(st.integers(1, 3))):
        co, c = {}, 0.0
        for t in L:
            m = draw(st.sampled_from([0, 1, 1, 2, 0.5]))
            for k, v in t[0].items():
                co[k] = co.get(k, 0) + m * v
            c += m * t[1]
        co = {k: v for k, v in co.items() if v != 0}
        if co:
            R.append([co, c + draw(st.sampled_from([0, 0, 1]))])
    beh = {v: float(w[v]) for v in pool} if draw(st.booleans()) else {v: float(draw(st.sampled_from(DY))) for v in pool}
    return {"kind": "consistency", "L": L, "R": R or [L[0]], "beh": beh}


def strategy(tier):
    return st.one_of(_member(), _member(), _member(), _member(), _member(), _member(), _empty(), _empty(), _empty(), _empty(),
                     _consistency(), _consistency())


def _beh(b):
    return {env.Var(k): v for k, v in b.items()}


def run_case(case):
    kind = case["kind"]
    labels = ["kind:" + kind]
    if kind == "member":
        terms, beh = case["terms"], case["beh"]
        labels += ["place:" + case["place"], "variant:" + case["variant"]]
        tl = env.TL(terms)
        used = {n for t in terms for n in t[0]}
        missing = sorted(used - set(beh))
        two_step = (not missing) and len(beh) >= 2 and (sum(map(ord, "".join(sorted(beh)))) + len(terms)) % 4 == 0
        try:
            if two_step:
                # the same question in two steps: substitute some of the values first, ask about the rest afterwards
                keys = list(beh)
                first = {k: beh[k] for k in keys[:len(keys) // 2]}
                rest = {k: beh[k] for k in keys[len(keys) // 2:]}
                labels.append("two-step")
                try:
                    part = tl.evaluate(_beh(first))
                except ValueError:
                    part = None      # documented: the values already violate a constraint
                got = False if part is None else part.contains_behavior(_beh({k: v for k, v in rest.items() if k in {x.name for x in part.vars}}))
            else:
                got = tl.contains_behavior(_beh(beh))
            raised = None
        except ValueError as e:
            got, raised = None, e
        except Exception as e:  # noqa: B902
            raise env.Undocumented(e, "contains_behavior") from e
        viol = None
        if missing:
            if raised is None:
                viol = {"what": "contains_behavior returned %s although variables %s have no value" % (got, missing),
                        "sig": {"kind": "missing-variable-not-rejected"}, "detail": {}}
            return {"viol": viol, "nontrivial": True, "labels": labels, "outcome": "judged"}
        exp = exact.holds_exact(terms, {k: F(v) for k, v in beh.items()})
        labels.append("expected-%s" % exp)
        if raised is not None:
            viol = {"what": "contains_behavior raised %r although every constrained variable is assigned" % raised,
                    "sig": {"kind": "raised-with-full-assignment"}, "detail": {}}
        elif bool(got) != exp:
            viol = {"what": "contains_behavior answered %s, exact evaluation says %s" % (got, exp),
                    "sig": {"kind": "wrong-membership", "expected": exp, "place": case["place"]}, "detail": {}}
        return {"viol": viol, "nontrivial": len(terms) >= 2 or len(used) >= 2, "labels": labels, "outcome": "judged"}
    if kind == "empty":
        terms = case["terms"]
        labels.append("class:" + case["cls"])
        st_, got = env.call("is_empty", env.TL(terms).is_empty)
        if st_ == "refused":
            mags = [abs(v) for t in terms for v in t[0].values() if v != 0]
            return {"viol": {"what": "is_empty raised %r" % got,
                             "sig": {"kind": "is_empty-raised", "ill_conditioned": bool(mags) and max(mags) / min(mags) >= 1e5}, "detail": {}},
                    "nontrivial": False, "labels": labels}
        if exact.feasible([exact.conj(terms)]):
            exp = False
        elif not exact.feasible([("and", [exact.le(t, exact.tol(t)) for t in terms])]):
            exp = True
        else:
            return {"viol": None, "nontrivial": False, "labels": labels + ["grey-skipped"], "outcome": "grey"}
        labels.append("expected-empty-%s" % exp)
        viol = None
        if bool(got) != exp:
            viol = {"what": "is_empty answered %s, exact feasibility says empty=%s" % (got, exp),
                    "sig": {"kind": "wrong-emptiness", "expected": exp}, "detail": {}}
        return {"viol": viol, "nontrivial": len(terms) >= 2, "labels": labels, "outcome": "judged"}
    L, R, beh = case["L"], case["R"], case["beh"]
    tl, tr = env.TL(L), env.TL(R)
    st_, ref = env.call("refines", tl.refines, tr)
    if st_ != "ok" or not ref:
        return {"viol": None, "nontrivial": False, "labels": labels + ["not-refining"], "outcome": "skipped"}
    inl = tl.contains_behavior(_beh(beh))
    inr = tr.contains_behavior(_beh(beh))
    viol = None
    if inl and not inr:
        viol = {"what": "behaviour contained in L, L refines R, but R does not contain it", "sig": {"kind": "membership-vs-refinement"}, "detail": {}}
    return {"viol": viol, "nontrivial": bool(inl), "labels": labels + ["in-left-%s" % inl], "outcome": "judged"}
