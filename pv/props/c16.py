"""C16  Renaming variables is faithful substitution."""
from hypothesis import strategies as st

from pv import env, exact, gens

ID = "C16"
LEVEL = "exploration"
N = {"quick": 1000, "thorough": 8000}
RULE = ("cases = (contract, list of (source,target) mappings) covering target fresh / existing input / existing output / source absent / "
        "source = target, swaps through a temporary name, chains, and targets whose coefficients add up or cancel; single renames via "
        "rename_variable, lists via rename_variables; reference model = substitution on the term dictionaries; oracle: interface sets as "
        "prescribed, A_R <=> A[s], A_R&G_R <=> (A&G)[s] (exact), IncompatibleArgsError exactly for input/output clashes, rename to fresh and "
        "back restores interface and meaning, absent source leaves the contract equal; non-trivial = a renaming of a present variable was "
        "applied and the contract has at least one term mentioning it; distinct = SHA-1 of the case")
ASSUMPTIONS = ["ValueError from the constructor is accepted only if the substituted system is infeasible"]


@st.composite
def _case(draw):
    ins = ["a", "b", "c"][:draw(st.integers(1, 3))]
    outs = ["x", "y"][:draw(st.integers(1, 2))]
    w = draw(gens.witness_s(ins + outs, -2, 2))
    c = draw(gens.wild_contract_s(ins, outs, w, na=(0, 3), ng=(1, 4)))
    allv = ins + outs
    if draw(st.integers(0, 11)) == 0 and (len(ins) >= 2 or len(outs) >= 2):
        # coefficients that nearly (not exactly) cancel when the two names are identified: the small remainder must survive
        side = ins if len(ins) >= 2 else outs
        s_, t_ = side[0], side[1]
        big, rest = draw(st.sampled_from([(1000000.0, 999995.0), (250000.5, 250000.0), (40000.0, 40000.25), (8192.0, 8191.96875)]))
        extra = {outs[-1]: 1.0} if side is ins else {}
        term = [dict({s_: big, t_: -rest}, **extra), float(draw(st.integers(1, 4)))]
        c = {"a": [] , "g": [term] + ([[{outs[-1]: -1.0}, 3.0]] if extra else []), "i": ins, "o": outs}
        if side is ins and draw(st.booleans()):
            c["a"] = [[{s_: big, t_: -rest}, float(draw(st.integers(1, 4)))]]
        return {"c": c, "maps": [[s_, t_]], "kind": "near-cancel", "witness": w}
    kind = draw(st.sampled_from(["fresh", "fresh", "existing-same-side", "existing-other-side", "absent", "same", "swap", "chain", "roundtrip",
                                 "cross-swap", "free-then-take"]))
    if kind == "fresh":
        maps = [[draw(st.sampled_from(allv)), "q"]]
    elif kind == "existing-same-side":
        side = ins if (len(ins) > 1 and draw(st.booleans())) or len(outs) < 2 else outs
        if len(side) < 2:
            maps = [[side[0], "q"]]
        else:
            s, t = draw(st.lists(st.sampled_from(side), min_size=2, max_size=2, unique=True))
            maps = [[s, t]]
    elif kind == "existing-other-side":
        if draw(st.booleans()):
            maps = [[draw(st.sampled_from(ins)), draw(st.sampled_from(outs))]]
        else:
            maps = [[draw(st.sampled_from(outs)), draw(st.sampled_from(ins))]]
    elif kind == "absent":
        maps = [["zz", draw(st.sampled_from(allv + ["q"]))]]
    elif kind == "same":
        v = draw(st.sampled_from(allv))
        maps = [[v, v]]
    elif kind == "swap":
        side = ins if len(ins) > 1 else outs
        if len(side) < 2:
            maps = [[side[0], "tmp"], ["tmp", side[0]]]
        else:
            s, t = side[0], side[1]
            maps = [[s, "tmp"], [t, s], ["tmp", t]]
    elif kind == "cross-swap":
        # an input and an output exchange their names through a temporary: every step is legal when applied in order
        i0, o0 = draw(st.sampled_from(ins)), draw(st.sampled_from(outs))
        maps = [[i0, "tmp"], [o0, i0], ["tmp", o0]]
    elif kind == "free-then-take":
        # the first mapping frees a name that the second gives to a variable of the other direction
        i0, o0 = draw(st.sampled_from(ins)), draw(st.sampled_from(outs))
        maps = [[o0, "q"], [i0, o0]] if draw(st.booleans()) else [[i0, "q"], [o0, i0]]
    elif kind == "chain":
        v = draw(st.sampled_from(allv))
        maps = [[v, "q"], ["q", "r"], ["r", draw(st.sampled_from(["s", v]))]]
    else:
        v = draw(st.sampled_from(allv))
        maps = [[v, "q"], ["q", v]]
    case = {"c": c, "maps": maps, "kind": kind, "witness": w}
    if draw(st.integers(0, 5)) == 0:
        # the same contract object has been renamed before (the result thrown away): it must still be the contract it was
        case["pre"] = [draw(st.sampled_from(allv)), draw(st.sampled_from(["p0", "q"]))]
    return case


@st.composite
def _named_case(draw):
    """the same cases under unusual variable names (prefixes of one another, look-alikes of numbers and symbols, underscores)"""
    case = draw(_case())
    scheme = draw(st.sampled_from(["plain", "plain", "plain", "prefix", "symbols", "shapes"]))
    if scheme != "plain":
        m = gens.NAME_SCHEMES[scheme]
        if "pre" in case:
            case["pre"] = [m.get(case["pre"][0], case["pre"][0]), m.get(case["pre"][1], case["pre"][1])]
        case = dict(case, c=gens.rename_contract(case["c"], m), maps=[[m.get(a, a), m.get(b, b)] for a, b in case["maps"]],
                    witness={m.get(k, k): v for k, v in case["witness"].items()}, names=scheme)
    return case


def strategy(tier):
    return _named_case()


def model_rename(d, s, t):
    """reference: rename s -> t in plain contract data; returns new data or 'clash'."""
    if s == t or (s not in d["i"] and s not in d["o"]):
        return {k: (list(v) if k in "io" else [[dict(x[0]), x[1]] for x in v]) for k, v in d.items()}
    side, other = ("i", "o") if s in d["i"] else ("o", "i")
    if t in d[other]:
        return "clash"
    out = {"i": list(d["i"]), "o": list(d["o"])}
    if t in d[side]:
        out[side] = [v for v in d[side] if v != s]
    else:
        out[side] = [t if v == s else v for v in d[side]]

    def sub(term):
        co = {}
        for k, v in term[0].items():
            k2 = t if k == s else k
            co[k2] = co.get(k2, 0.0) + v
        return [co, term[1]]     # zero coefficients are kept: meaning is what counts
    out["a"] = [sub(x) for x in d["a"]]
    out["g"] = [sub(x) for x in d["g"]]
    return out


def run_case(case):
    labels = ["kind:" + case["kind"], "names:" + case.get("names", "plain")]
    s0, con = env.call("construct", env.C, case["c"])
    if s0 != "ok":
        return {"viol": None, "nontrivial": False, "labels": labels + ["construction-refused"], "outcome": "construction-refused"}
    d0 = env.c_data(con)
    if case.get("pre"):
        env.call("rename_variable", con.rename_variable, env.Var(case["pre"][0]), env.Var(case["pre"][1]))
        labels.append("renamed-before")
    maps = case["maps"]
    # reference
    ref = d0
    for s, t in maps:
        ref = model_rename(ref, s, t)
        if ref == "clash":
            break
    if len(maps) == 1:
        status, res = env.call("rename_variable", con.rename_variable, env.Var(maps[0][0]), env.Var(maps[0][1]))
    else:
        status, res = env.call("rename_variables", con.rename_variables, [tuple(m) for m in maps])
    viol = None
    applied = any(s != t and (s in d0["i"] + d0["o"]) for s, t in maps[:1])
    touched = applied and any(maps[0][0] in t[0] for t in d0["a"] + d0["g"])
    if ref == "clash":
        labels.append("expected-clash")
        if status == "ok" or not isinstance(res, env.IncompatibleArgsError):
            viol = {"what": "renaming that makes a variable both input and output did not raise IncompatibleArgsError (got %r)" % (res,),
                    "sig": {"kind": "clash-not-rejected"}, "detail": {}}
        return {"viol": viol, "nontrivial": True, "labels": labels, "outcome": "judged"}
    names = sorted(set(gens.contract_names(d0, ref)) | {"q", "r", "s", "tmp"})
    if status == "refused":
        labels.append("refused:" + type(res).__name__)
        if isinstance(res, env.IncompatibleArgsError):
            viol = {"what": "renaming raised IncompatibleArgsError without an input/output clash: %s" % res,
                    "sig": {"kind": "spurious-clash"}, "detail": {}}
        elif exact.feasible([("and", [exact.le(t, -exact.tol(t)) for t in ref["a"] + ref["g"] if any(v != 0 for v in t[0].values())])]) and \
                all(any(v != 0 for v in t[0].values()) or t[1] >= 0 for t in ref["a"] + ref["g"]):
            viol = {"what": "renaming raised %s although the substituted system is satisfiable" % type(res).__name__,
                    "sig": {"kind": "rename-raised-on-feasible", "type": type(res).__name__}, "detail": {"message": str(res)[:200]}}
        return {"viol": viol, "nontrivial": False, "labels": labels, "outcome": "refused"}
    d = env.c_data(res)
    if d["i"] != ref["i"] and set(d["i"]) == set(ref["i"]):
        labels.append("input-order-differs")
    if set(d["i"]) != set(ref["i"]) or set(d["o"]) != set(ref["o"]) or len(set(d["i"])) != len(d["i"]) or len(set(d["o"])) != len(d["o"]):
        viol = {"what": "interface after renaming is %s/%s, prescribed %s/%s" % (d["i"], d["o"], ref["i"], ref["o"]),
                "sig": {"kind": "rename-interface"}, "detail": {"result": d}}
    if viol is None:
        e = exact.equivalent(d["a"], ref["a"], names)
        if e:
            viol = {"what": "renamed assumptions differ from the substituted assumptions (%s)" % e["direction"],
                    "sig": {"kind": "rename-meaning", "part": "assumptions"}, "detail": dict(e, result=d, reference=ref)}
    if viol is None:
        e = exact.equivalent(d["a"] + d["g"], ref["a"] + ref["g"], names)
        if e:
            viol = {"what": "renamed assumptions+guarantees differ from the substituted ones (%s)" % e["direction"],
                    "sig": {"kind": "rename-meaning", "part": "guarantees"}, "detail": dict(e, result=d, reference=ref)}
    if viol is None and case["kind"] in ("absent", "same"):
        # "changes nothing": same interface and meaning (checked above) and no constraint that the original did not have. Object
        # equality would demand more: the rebuilt contract may legitimately lose a guarantee that is implied without margin
        # (a tie the first simplification happened to keep).
        dc = env.c_data(con)
        same = set(d["i"]) == set(dc["i"]) and set(d["o"]) == set(dc["o"]) and all(t in dc["a"] for t in d["a"]) and all(t in dc["g"] for t in d["g"]) \
            and len(d["a"]) == len(dc["a"])
        if not same:
            viol = {"what": "renaming an absent variable / a variable to itself changed the contract", "sig": {"kind": "rename-noop-changed"}, "detail": {"result": d}}
    return {"viol": viol, "nontrivial": bool(touched), "labels": labels, "outcome": "returned"}
