"""C15  Composition and merging never forget an interface-level guarantee."""
from hypothesis import strategies as st

from pv import env, exact, gens
from pv.props import c01

ID = "C15"
LEVEL = "exploration"
N = {"quick": 540, "thorough": 4000}
RULE = ("cases = composable / mergeable contract pairs from the C01 generators with overlap planting: an interface-level guarantee "
        "present on both sides identically, positively scaled, loosened, or as mutually implied but syntactically different sets; "
        "with and without connections, both call orders, simplify on/off, compose and merge; oracle: every operand guarantee term over "
        "the result's interface is implied by A_R and G_R; without connection A_R <=> A1&A2 and A_R&G_R <=> A1&A2&G1&G2; "
        "non-trivial = the operation returned and at least one operand guarantee term lies over the result interface; distinct = SHA-1")
ASSUMPTIONS = ["operands are the contracts as constructed"]


@st.composite
def _case(draw):
    base = draw(c01.compose_case_s())
    op = draw(st.sampled_from(["compose", "compose", "compose", "merge"]))
    c1, c2 = base["c1"], base["c2"]
    if op == "merge":
        # merge needs a well-formed union interface: use shared-input / independent / shared-output shapes
        p = draw(gens.contract_pair_s(["independent", "shared_in"]))
        c1, c2 = p["c1"], p["c2"]
        base.update(wiring=p["wiring"], content=p["content"], witness=p["witness"])
        if draw(st.booleans()):  # shared output
            c2 = dict(c2, o=c2["o"] + [c1["o"][0]])
    w = draw(gens.witness_s(gens.contract_names(c1, c2))) if "witness" not in base else base["witness"]
    # plant overlapping interface-level guarantees
    shared = [v for v in c1["i"] + c1["o"] if v in c2["i"] + c2["o"]]
    plant = draw(st.sampled_from(["none", "identical", "scaled", "loosened", "mutual", "identical", "lookalike", "lookalike"]))
    pool1, pool2 = c1["i"] + c1["o"], c2["i"] + c2["o"]
    common = [v for v in pool1 if v in pool2]
    if plant != "none" and common:
        # a term over variables both contracts may mention; constants chosen generously so the systems stay satisfiable
        k = draw(st.integers(2 if (plant == "lookalike" and len(common) >= 2) else 1, min(3 if plant == "lookalike" else 2, len(common))))
        vs = draw(st.lists(st.sampled_from(common), min_size=k, max_size=k, unique=True))
        co = {v: draw(gens.coef_s()) for v in vs}
        c = float(draw(st.integers(3, 12)))
        t = [co, c]
        c1 = dict(c1, g=c1["g"] + [t])
        if plant == "identical":
            c2 = dict(c2, g=c2["g"] + [[dict(co), c]])
        elif plant == "scaled":
            f = draw(st.sampled_from([2, 0.5, 3]))
            c2 = dict(c2, g=c2["g"] + [[{k2: v * f for k2, v in co.items()}, c * f]])
        elif plant == "lookalike":
            # same variables, same constant, one coefficient different: a different constraint that must not be taken for a duplicate
            co2 = dict(co)
            v0 = list(co2)[draw(st.integers(0, len(co2) - 1))]
            how = draw(st.sampled_from([0, 0, 1, 2, 3]))
            if how == 0:
                co2[v0] = co2[v0] * (1 + draw(st.sampled_from([9e-6, -9e-6])))      # almost, but not, the same number
            elif how == 1 and len(co2) >= 2 and len(set(co2.values())) >= 2:
                ks = list(co2)
                vals = [co2[k_] for k_ in ks]
                co2 = dict(zip(ks, vals[1:] + vals[:1]))                           # the same numbers on other variables
            else:
                co2[v0] = co2[v0] + draw(st.sampled_from([1, -1, 2, 0.5])) or 3.0
            c2 = dict(c2, g=c2["g"] + [[co2, c]])
        elif plant == "loosened":
            c2 = dict(c2, g=c2["g"] + [[dict(co), c + draw(st.sampled_from([0.5, 1, 2]))]])
        else:  # mutual: {x<=c1, y<=c2} vs {x+y<=c1+c2, -y<=-c2 ...}: implied both ways only as sets
            v = vs[0]
            c2 = dict(c2, g=c2["g"] + [[{k2: 2 * a for k2, a in co.items()}, 2 * c], [{v: co[v]}, c + 20.0]])
    else:
        plant = "none"
    if draw(st.integers(0, 7)) == 0 and c1["a"]:
        # the first guarantee of an operand restates one of its own assumptions word for word
        t0 = draw(st.sampled_from(c1["a"]))
        c1 = dict(c1, g=[[dict(t0[0]), t0[1]]] + c1["g"])
        plant += "+restated"
    del shared, w
    base.update(c1=c1, c2=c2, op=op, plant=plant)
    base.pop("witness", None)
    return base


def strategy(tier):
    return _case()


def run_case(case):
    labels = ["op:" + case["op"], "plant:" + case["plant"], "wiring:" + case["wiring"], "simplify:%s" % case["simplify"]]
    pair = c01.build_pair(case, labels)
    if pair is None:
        return {"viol": None, "nontrivial": False, "labels": labels, "outcome": "construction-refused"}
    c1, c2 = pair
    if case["op"] == "merge":
        status, res = env.call("merge", c1.merge, c2)
        if status == "ok":
            res = (res, [])
    else:
        status, res = c01.compose(case, c1, c2)
    if status == "refused":
        return {"viol": None, "nontrivial": False, "labels": labels + ["refused:" + type(res).__name__], "outcome": "refused"}
    c, _ = res
    d1, d2, d = env.c_data(c1), env.c_data(c2), env.c_data(c)
    iface = set(d["i"]) | set(d["o"])
    names = gens.contract_names(d1, d2, d)
    kept = [(w, t) for w, dd in (("first", d1), ("second", d2)) for t in dd["g"] if set(t[0]) <= iface]
    hyps = [exact.conj(d["a"]), exact.conj(d["g"])]
    viol = None
    bad = exact.find_violation(hyps, [t for _, t in kept], names)
    if bad:
        who, t = kept[bad["term_index"]]
        other = d2 if who == "first" else d1
        implied_by_other = exact.implied([exact.conj(other["g"])], t, margin=exact.tol(t))
        viol = {"what": "%s forgot the %s operand's interface-level guarantee %s" % (case["op"], who, t),
                "sig": {"kind": "forgotten-guarantee", "op": case["op"], "implied_by_other_operand": bool(implied_by_other)},
                "detail": dict(bad, result=d, first=d1, second=d2)}
    connected = (set(d1["o"]) & set(d2["i"])) | (set(d2["o"]) & set(d1["i"]))
    if viol is None and case["op"] == "compose" and not connected:
        labels.append("no-connection")
        e = exact.equivalent(d["a"], d1["a"] + d2["a"], names)
        if e:
            viol = {"what": "composition without connection: assumptions are not the conjunction of both (%s)" % e["direction"],
                    "sig": {"kind": "inexact-unconnected-composition", "part": "assumptions"}, "detail": dict(e, result=d)}
        else:
            e = exact.equivalent(d["a"] + d["g"], d1["a"] + d2["a"] + d1["g"] + d2["g"], names)
            if e:
                viol = {"what": "composition without connection: guaranteed behaviours differ from both guarantees (%s)" % e["direction"],
                        "sig": {"kind": "inexact-unconnected-composition", "part": "guarantees"}, "detail": dict(e, result=d)}
    return {"viol": viol, "nontrivial": bool(kept), "labels": labels, "outcome": "returned"}
