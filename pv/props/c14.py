"""C14  Failures are reported only through the documented exceptions."""
import contextlib
import copy as _copy
import importlib
import io
import json
import os
import tempfile

from hypothesis import strategies as st

from pv import env, gens

ID = "C14"
LEVEL = "fault_enumeration"
UNDOC_IS_VIOLATION = True
N = {"quick": 1500, "thorough": 6000}
RULE = ("part B (enumerated, exhaustive): for 3 valid contracts in both file representations, every single-field deletion (entry: name, "
        "type, data; data: input_vars, output_vars, assumptions, guarantees; machine clause: constant, coefficients) and every single-field "
        "kind change (string -> null/number/list/object, number -> null/non-numeric string/list/object, list -> null/number/string/object, "
        "object -> null/number/string/list; the entry name's kind is not changed) is fed to validate_contract_dict, from_dict and "
        "read_contracts_from_file: ContractFormatError or ValueError (incl. subclasses and the syntax errors) is required, returning "
        "normally or any other exception type is a violation; part A (generated): the cases of every other property's generator plus "
        "adversarial shapes (empty lists, single-variable constraints, variable-free terms, cancelling coefficients, unbounded / "
        "degenerate contexts, more eliminated variables than rows, objectives over unknown variables, division by zero and huge exponents "
        "in strings); every pacti call is classified against its documented exception set, and after a documented exception the operands "
        "must be unchanged and usable; non-trivial = a fault case, or a generated case in which at least one pacti call raised; "
        "distinct = SHA-1 of the case")
ASSUMPTIONS = ["documented sets: algebra/query operations ValueError (IncompatibleArgsError is a ValueError); string operations additionally "
               "PolyhedralSyntaxException / PolyhedralSyntaxConvexException; dictionary/file operations additionally FileDataFormatError"]
EXHAUSTIVE = {"quick": True, "thorough": True}

OTHERS = ["c01", "c02", "c03", "c04", "c05", "c06", "c07", "c08", "c09", "c10", "c11", "c12", "c15", "c16", "c17", "c18", "c19"]


def _mods():
    out = {}
    for m in OTHERS:
        try:
            out[m.upper()] = importlib.import_module("pv.props." + m)
        except ImportError:
            pass
    return out


# ------------------------------------------------------------------ part B: fault enumeration
BASES = [
    {"input_vars": ["i", "j"], "output_vars": ["o"],
     "assumptions": [{"constant": 2.0, "coefficients": {"i": 1.0}}, {"constant": 0.0, "coefficients": {"i": -1.0, "j": 0.5}}],
     "guarantees": [{"constant": 3.0, "coefficients": {"o": 1.0, "i": -2.0}}]},
    {"input_vars": ["x"], "output_vars": ["y", "z"], "assumptions": [],
     "guarantees": [{"constant": 1.5, "coefficients": {"y": 1.0}}, {"constant": 4.0, "coefficients": {"z": -1.0, "x": 1.0}}]},
    {"input_vars": [], "output_vars": ["w"], "assumptions": [], "guarantees": [{"constant": 0.0, "coefficients": {"w": 2.0}}]},
]
KINDS = {"str": [("null", None), ("number", 7), ("list", ["a"]), ("object", {"a": 1})],
         "num": [("null", None), ("string", "abc"), ("list", [1.0]), ("object", {"a": 1})],
         "list": [("null", None), ("number", 7), ("string", "abc"), ("object", {"a": 1})],
         "obj": [("null", None), ("number", 7), ("string", "abc"), ("list", [1])]}


def _human(d):
    c = env.PolyhedralIoContract.from_dict(_copy.deepcopy(d))
    return c.to_dict()


def _kind(v):
    if isinstance(v, str):
        return "str"
    if isinstance(v, (int, float)) and not isinstance(v, bool):
        return "num"
    if isinstance(v, list):
        return "list"
    if isinstance(v, dict):
        return "obj"
    return None


def _paths(obj, prefix=()):
    """every path to a value inside a JSON object (dict keys and list indices)"""
    yield prefix
    if isinstance(obj, dict):
        for k in obj:
            yield from _paths(obj[k], prefix + (k,))
    elif isinstance(obj, list):
        for i, v in enumerate(obj):
            yield from _paths(v, prefix + (i,))


def _get(obj, path):
    for p in path:
        obj = obj[p]
    return obj


def _mutate(obj, path, how, value=None):
    obj = _copy.deepcopy(obj)
    parent = _get(obj, path[:-1])
    if how == "delete":
        del parent[path[-1]]
    else:
        parent[path[-1]] = value
    return obj


def enumerate_cases(tier):
    for bi, base in enumerate(BASES):
        for rep in ("machine", "human"):
            data = base if rep == "machine" else _human(base)
            entry = {"name": "c%d" % bi, "type": "PolyhedralIoContract_machine" if rep == "machine" else "PolyhedralIoContract", "data": data}
            for path in _paths(entry):
                if not path:
                    continue
                val = _get(entry, path)
                # deletions: only dictionary fields (not list elements, not individual coefficients of a clause)
                is_field = isinstance(path[-1], str) and not (len(path) >= 2 and path[-2] == "coefficients")
                if is_field:
                    yield {"part": "B", "rep": rep, "base": bi, "path": list(path), "fault": "delete"}
                if path == ("name",):
                    continue
                k = _kind(val)
                for kn, newv in KINDS.get(k, []):
                    yield {"part": "B", "rep": rep, "base": bi, "path": list(path), "fault": "kind:%s->%s" % (k, kn), "value": newv}
            yield {"part": "B", "rep": rep, "base": bi, "path": [], "fault": "none"}


def _field_class(path):
    if len(path) == 1:
        return "entry." + str(path[0])
    if len(path) == 2:
        return "data." + str(path[1])
    if len(path) >= 2 and path[-2] == "coefficients":
        return "clause.coefficient-value"
    if isinstance(path[-1], str):
        return "clause." + path[-1]
    return "list-element-of." + str(path[1])


FORMAT_OK = (ValueError, env.FileDataFormatError, env.PolyhedralSyntaxException, env.PolyhedralSyntaxConvexException)


def _run_fault(case):
    base = BASES[case["base"]]
    rep = case["rep"]
    machine = rep == "machine"
    data = base if machine else _human(base)
    entry = {"name": "c%d" % case["base"], "type": "PolyhedralIoContract_machine" if machine else "PolyhedralIoContract", "data": data}
    path = tuple(case["path"])
    if case["fault"] == "delete":
        entry = _mutate(entry, path, "delete")
    elif case["fault"] != "none":
        entry = _mutate(entry, path, "set", case.get("value"))
    labels = ["part:B", "rep:" + rep, "fault:" + case["fault"].split(":")[0], "where:" + ("entry" if len(path) == 1 else "data" if len(path) == 2 else "inner")]
    results = {}

    def attempt(name, fn):
        try:
            with contextlib.redirect_stdout(io.StringIO()):   # validate_contract_dict prints the offending value
                fn()
            results[name] = "accepted"
        except FORMAT_OK as e:
            results[name] = "rejected:" + type(e).__name__
        except Exception as e:  # noqa: B902
            results[name] = "escaped:" + type(e).__name__ + "@" + env.innermost_site(e)
    in_data = len(path) >= 2 and path[0] == "data"
    if in_data or case["fault"] == "none":
        d = entry["data"]
        attempt("validate_contract_dict", lambda: env.serializer.validate_contract_dict(_copy.deepcopy(d), "n", machine_representation=machine))
        if machine:
            attempt("from_dict", lambda: env.PolyhedralIoContract.from_dict(_copy.deepcopy(d)))

    def viafile():
        from pacti.utils.fileio import read_contracts_from_file
        fd, p = tempfile.mkstemp(suffix=".json", prefix="pv_c14_")
        os.close(fd)
        try:
            with open(p, "w") as f:
                json.dump([entry], f)
            return read_contracts_from_file(p)
        finally:
            os.unlink(p)
    attempt("read_contracts_from_file", viafile)
    viol = None
    for name, r in results.items():
        if case["fault"] == "none":
            if r != "accepted":
                viol = {"what": "%s rejected a valid %s contract entry: %s" % (name, rep, r), "sig": {"kind": "valid-entry-rejected", "entry_point": name}, "detail": {}}
            continue
        if r == "accepted":
            viol = {"what": "%s accepted a %s entry with fault %s at %s" % (name, rep, case["fault"], "/".join(map(str, path))),
                    "sig": {"kind": "fault-accepted", "entry_point": name, "fault": case["fault"].split("->")[0], "field": _field_class(path)},
                    "detail": {"results": results}}
            break
        if r.startswith("escaped"):
            viol = {"what": "%s: fault %s at %s escaped as %s" % (name, case["fault"], "/".join(map(str, path)), r[8:]),
                    "sig": {"kind": "fault-escaped", "entry_point": name, "exception": r[8:].split("@")[0], "site": r.split("@")[-1]},
                    "detail": {"results": results}}
            break
    return {"viol": viol, "nontrivial": True, "labels": labels + ["%s:%s" % (k, v.split(":")[0]) for k, v in results.items()], "outcome": "fault-judged"}


# ------------------------------------------------------------------ part A: generated
ADV_STRINGS = ["(1/0)x <= 1", "x <= (1/0)", "1e999x <= 1", "x <= 1e999", "(1e308*10)x <= 1", "0x <= 1", "x - x <= 1", "1 <= 2", "2 <= 1",
               "|x| <= (0/0)", "(2/(1-1))x <= 3", "x <= ((1))", "0 <= 0", "x + 0y <= 1", "|0x| <= 1", "(0*5)x + y <= 2", "|x - x| <= 1",
               "1e-999x <= 1", "x <= -1e999", "(1e200*1e200) <= x", "3 = 3", "x = x", "0x = 1", "", " ", "<=", "x <=", "| <= 1"]


@st.composite
def _const_expr_string(draw):
    """a constraint string whose constant arithmetic contains zeros in arbitrary positions (divisions by zero anywhere in a chain)"""
    n = draw(st.integers(2, 5))
    muldiv_only = draw(st.booleans())
    parts = [str(draw(st.sampled_from([0, 1, 2, 3, 4, 6])))]
    for _ in range(n - 1):
        parts.append(draw(st.sampled_from(["/", "/", "*"] if muldiv_only else ["/", "/", "*", "+", "-"])))
        nxt = draw(st.sampled_from(["0", "1", "2", "3", "2", "4", "(3-3)", "(1-1)", "0.0", "(2*0)"]))
        parts.append(nxt)
    expr = "(" + "".join(parts) + ")"
    form = draw(st.sampled_from(["%sx <= 1", "x <= %s", "%s*x + y <= 1", "%s|x| <= 2", "x + y >= %s", "%s(x + y) <= 3", "x = %s"]))
    return form % expr


@st.composite
def _adv_terms(draw, pool, nmax=3):
    out = []
    for _ in range(draw(st.integers(0, nmax))):
        kind = draw(st.sampled_from(["normal", "single", "varfree", "zero-coef", "varfree-neg", "big"]))
        if kind == "normal":
            out.append(draw(gens.term_s(pool)))
        elif kind == "single":
            out.append([{draw(st.sampled_from(pool)): float(draw(st.sampled_from([1, -1, 2])))}, float(draw(st.integers(-3, 3)))])
        elif kind == "varfree":
            out.append([{}, float(draw(st.integers(0, 3)))])
        elif kind == "varfree-neg":
            out.append([{}, -1.0])
        elif kind == "zero-coef":
            out.append([{draw(st.sampled_from(pool)): 0.0, draw(st.sampled_from(pool)): float(draw(st.sampled_from([1, -1])))}, 1.0])
        else:
            out.append([{draw(st.sampled_from(pool)): float(draw(st.sampled_from([1e6, -1e6, 1e-6])))}, float(draw(st.sampled_from([1e6, -1e6, 0])))])
    return out


@st.composite
def _adv(draw):
    pool = gens.NAMES[:draw(st.integers(1, 4))]
    op = draw(st.sampled_from(["simplify", "refines", "is_empty", "contains", "elim", "elim", "optimize", "compose", "quotient", "merge",
                               "rename", "parse", "parse", "parse", "copy-roundtrip", "construct", "rename-elim", "rename-elim"]))
    case = {"part": "A", "src": "ADV", "op": op, "pool": pool, "t1": draw(_adv_terms(pool)), "t2": draw(_adv_terms(pool)),
            "elim": draw(st.lists(st.sampled_from(pool), min_size=1, max_size=len(pool), unique=True)),
            "refine": draw(st.booleans()), "simplify": draw(st.booleans()), "order": draw(gens.order_s()),
            "string": draw(st.one_of(st.sampled_from(ADV_STRINGS), _const_expr_string())), "var": draw(st.sampled_from(pool + ["unknown"]))}
    if op in ("compose", "quotient", "merge", "rename", "optimize", "construct", "copy-roundtrip", "rename-elim"):
        ins = pool[:max(1, len(pool) // 2)]
        outs = pool[len(ins):] or ["o"]
        case["c1"] = {"a": draw(_adv_terms(ins, 2)), "g": draw(_adv_terms(ins + outs, 3)), "i": ins, "o": outs}
        if op == "rename-elim" and len(ins + outs) >= 2:
            # a guarantee whose coefficients cancel when the first two names of one side are identified
            side = outs if len(outs) >= 2 else (ins if len(ins) >= 2 else None)
            if side:
                k = float(draw(st.sampled_from([1, 2, 3])))
                t = {side[0]: k, side[1]: -k}
                for v in (ins + outs):
                    if v not in t and draw(st.booleans()):
                        t[v] = float(draw(st.sampled_from([1, -1, 2])))
                case["c1"]["g"].append([t, float(draw(st.integers(0, 3)))])
                case["elim"] = [side[0]]
                case["var"] = side[1]
        o2 = ["p"]
        i2 = outs[:1] + (ins[:1] if draw(st.booleans()) else [])
        case["c2"] = {"a": draw(_adv_terms(i2, 2)), "g": draw(_adv_terms(i2 + o2, 2)), "i": i2, "o": o2}
    return case


@st.composite
def _from_others(draw):
    mods = _mods()
    # the eliminations, compositions and quotients reach the deepest code: weight them
    pid = draw(st.sampled_from(sorted(mods) + [m for m in ("C04", "C04", "C04", "C01", "C02", "C02") if m in mods]))
    if pid == "C04":
        case = draw(mods[pid].deep_strategy()) if draw(st.booleans()) else draw(mods[pid].strategy("quick"))
        scheme = draw(st.sampled_from(["plain", "plain", "symbols", "prefix", "shapes"]))
        if scheme != "plain":
            # the same elimination under unusual variable names (look-alikes of numbers / well-known symbols, prefixes, underscores)
            m = gens.NAME_SCHEMES[scheme]
            case = dict(case, terms=gens.rename_terms(case["terms"], m), ctx=gens.rename_terms(case["ctx"], m),
                        elim=[m.get(v, v) for v in case["elim"]])
        return {"part": "A", "src": pid, "case": case, "names": scheme}
    return {"part": "A", "src": pid, "case": draw(mods[pid].strategy("quick"))}


def strategy(tier):
    return st.one_of(_from_others(), _from_others(), _adv())


def _snap(obj):
    if isinstance(obj, env.PolyhedralIoContract):
        return ("C", json.dumps(env.c_data(obj), sort_keys=True))
    if isinstance(obj, env.PolyhedralTermList):
        return ("TL", json.dumps([[sorted(t[0].items()), t[1]] for t in env.tl_data(obj)]))
    return ("?", repr(obj))


def _run_adv(case):
    op = case["op"]
    labels = ["part:A", "src:ADV", "op:" + op]
    raised = [0]
    operands = []

    def call(name, fn, *a, documented=env.ALGEBRA_DOCUMENTED, **kw):
        before = [_snap(o) for o in operands]
        st_, r = env.call(name, fn, *a, documented=documented, **kw)
        if st_ == "refused":
            raised[0] += 1
            after = [_snap(o) for o in operands]
            if before != after:
                raise AssertionError("operand changed")
            for o in operands:       # operands stay usable
                env.call("copy-after-error", o.copy)
                str(o)
        return st_, r
    viol = None
    try:
        if op == "parse":
            call("parse", env.serializer.polyhedral_termlist_from_string, case["string"], documented=env.STRING_DOCUMENTED)
            call("from_strings", env.PolyhedralIoContract.from_strings, [], [case["string"]], [], ["x", "y"], documented=env.STRING_DOCUMENTED)
        elif op in ("simplify", "refines", "is_empty", "contains", "elim"):
            t1, t2 = env.TL(case["t1"]), env.TL(case["t2"])
            operands += [t1, t2]
            if op == "simplify":
                call("simplify", t1.simplify, t2)
                call("simplify", t1.simplify)
            elif op == "refines":
                call("refines", t1.refines, t2)
            elif op == "is_empty":
                call("is_empty", t1.is_empty)
            elif op == "contains":
                call("contains_behavior", t1.contains_behavior, {env.Var(v): 1.0 for v in case["pool"]})
                call("contains_behavior", t1.contains_behavior, {env.Var(case["pool"][0]): 1.0})
            else:
                fn = t1.elim_vars_by_refining if case["refine"] else t1.elim_vars_by_relaxing
                call("elim_vars", fn, t2, [env.Var(v) for v in case["elim"]], case["simplify"], case["order"])
        else:
            s1, c1 = call("construct", env.C, case["c1"], case["simplify"])
            s2, c2 = call("construct", env.C, case["c2"], True)
            if s1 == "ok":
                operands.append(c1)
                if op == "optimize":
                    call("optimize", c1.optimize, case["var"], case["refine"], documented=env.STRING_DOCUMENTED)
                    call("get_variable_bounds", c1.get_variable_bounds, case["var"], documented=env.STRING_DOCUMENTED)
                    call("optimize", c1.optimize, case["string"], True, documented=env.STRING_DOCUMENTED)
                elif op == "rename-elim":
                    # term-list level first: TermList.rename_variable is public too and does not re-simplify
                    sr0, g0 = call("TermList.rename_variable", c1.g.rename_variable, env.Var(case["elim"][0]), env.Var(case["var"]))
                    if sr0 == "ok":
                        operands.append(g0)
                        for o in (case["order"], [3], [4, 3], [3, 1], [5], [2]):
                            call("elim_vars_by_refining", g0.elim_vars_by_refining, c1.a, [env.Var(case["var"])], False, o)
                            call("elim_vars_by_relaxing", g0.elim_vars_by_relaxing, c1.a, [env.Var(case["var"])], False, o)
                        call("simplify", g0.simplify, c1.a)
                        call("is_empty", g0.is_empty)
                    sr, r = call("rename_variable", c1.rename_variable, env.Var(case["elim"][0]), env.Var(case["var"]))
                    if sr == "ok":
                        operands.append(r)
                        ev = [env.Var(case["var"])]
                        call("elim_vars_by_refining", r.g.elim_vars_by_refining, r.a, ev, False, case["order"])
                        call("elim_vars_by_relaxing", r.g.elim_vars_by_relaxing, r.a, ev, False, case["order"])
                        for o in ([3], [4, 3], [3, 5]):
                            call("elim_vars_by_refining", r.g.elim_vars_by_refining, r.a | r.g, ev, False, o)
                        if s2 == "ok":
                            call("quotient_tactics", r.quotient_tactics, c2, None, False, case["order"])
                elif op == "rename":
                    call("rename_variable", c1.rename_variable, env.Var(case["elim"][0]), env.Var(case["var"]))
                    call("rename_variables", c1.rename_variables, [(case["elim"][0], "tmp"), ("tmp", case["var"])])
                elif op == "copy-roundtrip":
                    call("copy", c1.copy)
                    call("to_dict/from_strings", lambda: env.PolyhedralIoContract.from_strings(**c1.to_dict()), documented=env.STRING_DOCUMENTED)
                    call("to_machine_dict/from_dict", lambda: env.PolyhedralIoContract.from_dict(c1.to_machine_dict()), documented=env.FORMAT_DOCUMENTED)
                    call("simplify", c1.simplify)
                elif s2 == "ok":
                    operands.append(c2)
                    if op == "compose":
                        call("compose_tactics", c1.compose_tactics, c2, None, case["simplify"], case["order"])
                        call("compose_tactics", c2.compose_tactics, c1, None, case["simplify"], case["order"])
                    elif op == "quotient":
                        call("quotient_tactics", c1.quotient_tactics, c2, None, case["simplify"], case["order"])
                        call("quotient_tactics", c2.quotient_tactics, c1, None, case["simplify"], case["order"])
                    elif op == "merge":
                        call("merge", c1.merge, c2)
                        call("refines", lambda: c1.refines(c1))
    except AssertionError as e:
        if str(e) != "operand changed":
            raise
        viol = {"what": "an operand was modified by a call that raised a documented exception (%s)" % op,
                "sig": {"kind": "operand-changed-by-failed-call", "op": op}, "detail": {}}
    return {"viol": viol, "nontrivial": raised[0] > 0, "labels": labels + ["raised:%s" % (raised[0] > 0)], "outcome": "adversarial"}


def run_case(case):
    if case["part"] == "B":
        return _run_fault(case)
    if case["src"] == "ADV":
        return _run_adv(case)
    mod = _mods()[case["src"]]
    out = mod.run_case(case["case"])      # an Undocumented exception propagates: the runner turns it into a C14 violation
    refused = any(("refus" in lb or "raised" in lb or "declined" in lb or "convex" in lb) for lb in out.get("labels", []))
    return {"viol": None, "nontrivial": refused, "labels": ["part:A", "src:" + case["src"], "raised:%s" % refused], "outcome": "classified"}
