"""C01  Composition returns a sound abstraction of the exact composition."""
from hypothesis import strategies as st

from pv import env, exact, gens

ID = "C01"
LEVEL = "exploration"
N = {"quick": 600, "thorough": 5000}
RULE = ("cases = (two contracts over a wiring in {independent, cascade either order, shared inputs, feedback, mixed} with structured "
        "or wild contents sharing a witness, plus cascades whose consumer assumption cancels to a variable-free `0 <= -delta`, vars_to_keep subset of outputs, optionally a third contract composed with the result (a chain), simplify flag, tactics_order, call order); oracle: "
        "A_C and (A1+ => G1) and (A2+ => G2) must imply every term of A1, A2 and G_C (exact, box 1000, tolerance 1e-4(1+|c|), A+ = "
        "assumptions enlarged by 1e-7); non-trivial = compose returned, at least one tactic transformed a term (statistics entry > 0), "
        "and the hypotheses are satisfiable in the box; distinct = SHA-1 of the case")
ASSUMPTIONS = ["operands are the contracts as constructed (after the constructor's own simplification)"]


@st.composite
def _cancelling_pair(draw):
    """cascade in which the consumer's assumption cancels completely against the producer's guarantee and leaves `0 <= -delta`
    (not dischargeable), next to an unrelated assumption with a constant of any size"""
    f = float(draw(st.sampled_from([1, 2, 0.5])))
    delta = float(draw(st.sampled_from([0.5, 1, 0.0005, 2 ** -10, -1, 0])))     # <= 0: dischargeable
    big = float(draw(st.sampled_from([10, 1e3, 2e3, 1e6])))
    c1 = {"i": ["u"], "o": ["y"], "a": [], "g": [[{"y": f, "u": -f}, 0.0]]}
    if draw(st.booleans()):
        c1["g"].append([{"y": -1.0, "u": 1.0}, float(draw(st.sampled_from([0, 1, 5])))])
    c2 = {"i": ["y", "u", "v"], "o": ["z"], "a": [[{"y": 1.0, "u": -1.0}, -delta], [{"v": 1.0}, big]],
          "g": [[{"z": 1.0, "y": -1.0}, float(draw(st.sampled_from([0, 1])))]]}
    if draw(st.booleans()):
        c2["a"].reverse()
    return {"c1": c1, "c2": c2, "wiring": "cascade12", "content": "cancelling"}


@st.composite
def compose_case_s(draw, kinds=gens.WIRINGS_W):
    p = draw(_cancelling_pair()) if kinds is gens.WIRINGS_W and draw(st.integers(0, 15)) == 0 else draw(gens.contract_pair_s(kinds))
    chain = None
    if "witness" in p and draw(st.integers(0, 5)) == 0:
        # a third contract that consumes outputs of the composition: the result of the first step is an operand of the second
        outs_all = [v for v in p["c1"]["o"] + p["c2"]["o"] if v not in p["c1"]["i"] + p["c2"]["i"]] or (p["c1"]["o"] + p["c2"]["o"])
        ins3 = [v for v in outs_all if draw(st.booleans())][:2] or outs_all[:1]
        w3 = dict(p["witness"], zf=float(draw(st.integers(-3, 3))))
        chain = draw(gens.wild_contract_s(ins3, ["zf"], w3, na=(0, 2), ng=(1, 2)))
    scheme = draw(st.sampled_from(["plain", "plain", "plain", "plain", "symbols", "prefix"]))
    if scheme != "plain":
        # unusual variable names: look-alikes of numbers / well-known symbols, prefixes of one another
        m = gens.WIRING_SCHEMES[scheme]
        p = dict(p, c1=gens.rename_contract(p["c1"], m), c2=gens.rename_contract(p["c2"], m))
        chain = gens.rename_contract(chain, m) if chain else None
    outs = p["c1"]["o"] + p["c2"]["o"]
    keep = [v for v in outs if draw(st.integers(0, 5)) == 0]
    if chain:
        keep = list(dict.fromkeys(keep + [v for v in chain["i"] if v in outs]))
    case = {"c1": p["c1"], "c2": p["c2"], "wiring": p["wiring"], "content": p["content"], "keep": keep,
            "simplify": draw(st.sampled_from([True, True, False])), "order": draw(gens.order_s()),
            "swap": draw(st.sampled_from([False, False, True]))}
    if chain:
        case["chain"] = chain
    return case


def strategy(tier):
    return compose_case_s()


def build_pair(case, labels):
    s1, c1 = env.call("construct", env.C, case["c1"])
    s2, c2 = env.call("construct", env.C, case["c2"])
    if s1 != "ok" or s2 != "ok":
        labels.append("construction-refused")
        return None
    if case.get("swap"):
        c1, c2 = c2, c1
    return c1, c2


def compose(case, c1, c2):
    order = None if case["order"] is None else list(case["order"])
    keep = [v for v in case["keep"]]
    return env.call("compose_tactics", c1.compose_tactics, c2, keep, case["simplify"], order)


def used_tactics(stats):
    return sorted({int(s[0]) for ss in stats for s in ss if s[0] > 0})


def run_case(case):
    labels = ["wiring:" + case["wiring"], "content:" + case["content"], "simplify:%s" % case["simplify"],
              "order:" + ("default" if case["order"] is None else "single-%d" % case["order"][0] if len(case["order"]) == 1 else "multi"),
              "keep:%d" % min(len(case["keep"]), 2)]
    pair = build_pair(case, labels)
    if pair is None:
        return {"viol": None, "nontrivial": False, "labels": labels, "outcome": "construction-refused"}
    c1, c2 = pair
    status, res = compose(case, c1, c2)
    if status == "refused":
        labels.append("refused:" + type(res).__name__)
        return {"viol": None, "nontrivial": False, "labels": labels, "outcome": "refused"}
    c, stats = res
    used = used_tactics(stats)
    labels += ["tactic-%d" % u for u in used] or ["no-tactic"]
    viol, feasible = judge_abstraction(c1, c2, c, used, "")
    if viol is None and case.get("chain"):
        # second step: the composition just obtained (whatever its internal shape) composed with a third contract
        s3, c3 = env.call("construct", env.C, case["chain"])
        if s3 == "ok":
            st2, res2 = env.call("compose_tactics", c.compose_tactics, c3, [], case["simplify"], None if case["order"] is None else list(case["order"]))
            labels.append("chain:" + ("returned" if st2 == "ok" else "refused"))
            if st2 == "ok":
                viol, _ = judge_abstraction(c, c3, res2[0], used_tactics(res2[1]), " (second step of a chain)")
    nontrivial = bool(used) and feasible
    return {"viol": viol, "nontrivial": nontrivial, "labels": labels, "outcome": "returned"}


def judge_abstraction(c1, c2, c, used, where):
    d1, d2, d = env.c_data(c1), env.c_data(c2), env.c_data(c)
    names = gens.contract_names(d1, d2, d)
    hyps = [exact.conj(d["a"]), exact.implies(d1["a"], d1["g"]), exact.implies(d2["a"], d2["g"])]
    viol = None
    for part, concl in (("A1", d1["a"]), ("A2", d2["a"]), ("G", d["g"])):
        bad = exact.find_violation(hyps, concl, names)
        if bad:
            viol = {"what": "composition is not an abstraction%s: %s term %s can be violated" % (where, part, bad["term"]),
                    "sig": {"kind": "unsound-composition", "part": part, "tactics": used},
                    "detail": dict(bad, composition=d, first=d1, second=d2)}
            break
    return viol, exact.feasible(hyps, names, exact.BOX)
