"""C19  Equality, hashing and copying of terms, lists and contracts are coherent."""
import copy as _copy

from hypothesis import strategies as st

from pv import env, gens

ID = "C19"
LEVEL = "exploration"
N = {"quick": 500, "thorough": 12000}
RULE = ("cases = a base object (term, list, contract, compound contract) on small-integer/dyadic data plus up to two derived objects "
        "obtained by a single-field edit (replace/permute inputs or outputs, change one coefficient or constant, reorder terms, +0.0/-0.0 "
        "constant, variable insertion order), by copy(), by dict/string round trip or by parsing; oracle (pure logic): copy == original "
        "with equal hashes, a == b implies hash(a) == hash(b), symmetry, transitivity over the triple, and objects that differ in exactly one "
        "of inputs / outputs / assumptions / guarantees (as sets of names resp. as meaning-changing term edits) compare unequal; "
        "non-trivial = the base has >= 1 term and at least one derived object is an edit (not only copies); distinct = SHA-1 of the case")
ASSUMPTIONS = ["permutations of inputs/outputs/terms are checked for coherence only (eq => equal hash, symmetry), not for a particular answer"]

EDITS_CONTRACT = ["copy", "copy", "inplace-simplify", "move-input-to-output", "hash-then-rename", "replace-input", "replace-output", "add-output", "coef", "coef-tiny", "const-a", "const-g", "drop-g", "perm-inputs",
                  "perm-outputs", "perm-terms", "roundtrip-dict", "roundtrip-str", "neg-zero", "var-order"]
EDITS_TERMS = ["copy", "coef", "coef-tiny", "const-tiny", "const", "neg-zero", "var-order", "parsed", "perm-terms", "drop-term", "hash-then-rename", "rename-cancel"]


@st.composite
def _case(draw):
    kind = draw(st.sampled_from(["term", "list", "contract", "contract", "contract", "compound"]))
    if kind in ("term", "list"):
        pool = gens.NAMES[:draw(st.integers(1, 4))]
        w = draw(gens.witness_s(pool))
        base = draw(gens.termlist_s(pool, w, 1, 1 if kind == "term" else 4))
        if draw(st.integers(0, 3)) == 0:
            base[0] = [base[0][0], 0.0]
        return {"kind": kind, "base": base, "edits": [draw(st.sampled_from(EDITS_TERMS)) for _ in range(2)],
                "pick": draw(st.integers(0, 7)), "delta": draw(st.sampled_from([1, -1, 0.5, 2]))}
    ins = ["a", "b", "c"][:draw(st.integers(1, 3))]
    outs = ["x", "y"][:draw(st.integers(1, 2))]
    w = draw(gens.witness_s(ins + outs))
    if kind == "contract":
        base = draw(gens.wild_contract_s(ins, outs, w, na=(0, 2), ng=(1, 3)))
        return {"kind": kind, "base": base, "edits": [draw(st.sampled_from(EDITS_CONTRACT)) for _ in range(2)],
                "pick": draw(st.integers(0, 7)), "delta": draw(st.sampled_from([1, -1, 0.5, 2]))}
    # compound: disjoint assumption alternatives along input a
    lo = draw(st.integers(-3, 0))
    alts_a = [[[{"a": 1.0}, float(lo)]], [[{"a": -1.0}, float(-lo - 2)]]][:draw(st.integers(1, 2))]
    alts_g = [draw(gens.termlist_s(ins + outs, w, 1, 2)) for _ in range(draw(st.integers(1, 2)))]
    return {"kind": kind, "base": {"a": alts_a, "g": alts_g, "i": ins, "o": outs},
            "edits": [draw(st.sampled_from(["copy", "replace-output", "replace-input", "add-output", "const-g"])) for _ in range(2)],
            "pick": draw(st.integers(0, 7)), "delta": draw(st.sampled_from([1, -1, 0.5, 2]))}


def strategy(tier):
    return _case()


def _bump(x, pick):
    """a different float that a tolerance-based comparison would take for the same one: relative 4e-6, or 1-4 units in the last place"""
    import math
    if (pick // 7) % 3 == 0:
        for _ in range(pick % 4 + 1):
            x = math.nextafter(x, math.inf)
        return x
    return x * (1 + 4e-6)


def _edit_terms(ts, edit, pick, delta):
    """returns (new term data list, differs: True|False|None, how)"""
    ts = _copy.deepcopy(ts)
    i = pick % len(ts)
    if edit == "coef":
        v = sorted(ts[i][0])[pick % len(ts[i][0])]
        ts[i][0][v] = ts[i][0][v] + (delta if ts[i][0][v] + delta != 0 else 2 * delta)
        return ts, True
    if edit == "const":
        ts[i][1] = ts[i][1] + delta
        return ts, True
    if edit == "coef-tiny":
        # a different number that a tolerance-based comparison would take for the same one
        v = sorted(ts[i][0])[pick % len(ts[i][0])]
        ts[i][0][v] = _bump(ts[i][0][v], pick)
        return ts, True
    if edit == "const-tiny":
        ts[i][1] = _bump(ts[i][1], pick) if ts[i][1] != 0 else 4e-9
        return ts, True
    if edit == "neg-zero":
        if ts[i][1] == 0:
            ts[i][1] = -0.0
        return ts, False
    if edit == "var-order":
        ts[i][0] = dict(reversed(list(ts[i][0].items())))
        return ts, False
    if edit == "perm-terms":
        ts = list(reversed(ts))
        return ts, None
    if edit == "drop-term":
        if len(ts) > 1:
            ts.pop(i)
            return ts, True
        return ts, False
    return ts, False


def _mk_terms(kind, ts, edit):
    if edit == "parsed":
        # rebuild every term from its printed string when it prints exactly (small integers / dyadics)
        out = []
        for t in ts:
            s = " + ".join("%r*%s" % (float(a), v) for v, a in t[0].items()).replace("+ -", "- ") + " <= %r" % float(t[1])
            out += env.serializer.polyhedral_termlist_from_string(s)
        objs = out
    else:
        objs = [env.T(t) for t in ts]
    return objs[0] if kind == "term" else env.PolyhedralTermList(objs)


def _mk_contract(d):
    return env.C(d)


def _mk_compound(d):
    return env.PolyhedralIoContractCompound(
        env.NestedPolyhedra([env.TL(t) for t in d["a"]], force_empty_intersection=True),
        env.NestedPolyhedra([env.TL(t) for t in d["g"]], force_empty_intersection=False),
        [env.Var(v) for v in d["i"]], [env.Var(v) for v in d["o"]])


def _edit_contract(d, edit, pick, delta, compound):
    d = _copy.deepcopy(d)
    if edit == "replace-input":
        used = {n for t in (sum(d["a"], []) if compound else d["a"]) for n in t[0]} | {n for t in (sum(d["g"], []) if compound else d["g"]) for n in t[0]}
        free = [v for v in d["i"] if v not in used]
        if free:
            d["i"][d["i"].index(free[0])] = "zz"
            return d, True
        d["i"] = d["i"] + ["zz"]
        return d, True
    if edit == "replace-output":
        used = {n for t in (sum(d["g"], []) if compound else d["g"]) for n in t[0]}
        free = [v for v in d["o"] if v not in used]
        if free:
            d["o"][d["o"].index(free[0])] = "ww"
        else:
            d["o"] = d["o"] + ["ww"]
        return d, True
    if edit == "add-output":
        d["o"] = d["o"] + ["ww"]
        return d, True
    if edit == "perm-inputs":
        d["i"] = list(reversed(d["i"]))
        return d, None
    if edit == "perm-outputs":
        d["o"] = list(reversed(d["o"]))
        return d, None
    if compound:
        if edit == "const-g":
            d["g"][0][0][1] += abs(delta) + 1
            return d, None
        return d, False
    if edit in ("const-a", "const-g", "coef", "coef-tiny", "drop-g", "perm-terms", "neg-zero", "var-order"):
        key = "a" if edit == "const-a" else "g"
        if not d[key]:
            return d, False
        te = {"const-a": "const", "const-g": "const", "drop-g": "drop-term"}.get(edit, edit)
        d[key], differs = _edit_terms(d[key], te, pick, delta)
        # after the constructor's simplification a syntactic edit need not survive: judge on the built objects
        return d, ("built" if differs else differs)
    return d, False


def run_case(case):
    kind = case["kind"]
    labels = ["kind:" + kind] + ["edit:" + e for e in case["edits"]]
    objs, expect = [], []
    pending = None
    try:
        if kind in ("term", "list"):
            base = _mk_terms(kind, case["base"], "none")
            objs.append(base)
            for e in case["edits"]:
                if e == "copy":
                    objs.append(base.copy())
                    expect.append(False)
                elif e == "hash-then-rename":
                    # an object that was hashed, then renamed, must equal (and hash like) the same object built from scratch;
                    # both are appended so that the coherence laws apply to the pair
                    src = sorted(case["base"][0][0])[case["pick"] % len(case["base"][0][0])]
                    o = _mk_terms(kind, case["base"], "none")
                    hash(o)
                    objs.append(o.rename_variable(env.Var(src), env.Var("zz")))
                    expect.append(None)
                    renamed = [[{("zz" if k == src else k): v for k, v in t[0].items()}, t[1]] for t in case["base"]]
                    objs.append(_mk_terms(kind, renamed, "none"))
                    expect.append(None)
                elif e == "rename-cancel":
                    # a rename that merges two variables whose coefficients cancel exactly: the result must be the object one
                    # would write by hand without that variable, equal to its own copy, with the same hash
                    t0 = case["base"][0]
                    v = sorted(t0[0])[case["pick"] % len(t0[0])]
                    if len(t0[0]) >= 2:
                        with_zz = [[dict(t0[0], zz=-t0[0][v]), t0[1]]] + [[dict(t[0]), t[1]] for t in case["base"][1:]]
                        o = _mk_terms(kind, with_zz, "none").rename_variable(env.Var("zz"), env.Var(v))
                        hand = [[{k: c for k, c in t0[0].items() if k != v}, t0[1]]] + [[dict(t[0]), t[1]] for t in case["base"][1:]]
                        scratch = _mk_terms(kind, hand, "none")
                        cp = o.copy()
                        if not (o == cp):
                            pending = {"what": "%s: the copy of a renamed object (cancelling coefficients) is not equal to it" % kind,
                                       "sig": {"kind": "copy-not-equal", "obj": kind, "edit": e}, "detail": {}}
                        elif not (o == scratch):
                            pending = {"what": "%s: renaming two variables with cancelling coefficients into one does not give the object written without that variable" % kind,
                                       "sig": {"kind": "same-not-equal", "obj": kind, "edit": e}, "detail": {}}
                        objs += [o, scratch]
                        expect += [None, None]
                    else:
                        objs += [base.copy(), base.copy()]
                        expect += [None, None]
                else:
                    ts, differs = _edit_terms(case["base"], e, case["pick"], case["delta"])
                    objs.append(_mk_terms(kind, ts, e))
                    expect.append(differs)
        else:
            mk = _mk_contract if kind == "contract" else _mk_compound
            base = mk(case["base"])
            objs.append(base)
            for e in case["edits"]:
                if e == "copy" and kind == "contract":
                    objs.append(base.copy())
                    expect.append(False)
                elif e == "hash-then-rename" and kind == "contract":
                    names = case["base"]["i"] + case["base"]["o"]
                    src = names[case["pick"] % len(names)]
                    hash(base)
                    for t in base.a.terms + base.g.terms:
                        hash(t)
                    objs.append(base.rename_variable(env.Var(src), env.Var("zz")))
                    expect.append(None)
                    objs.append(env.C(env.c_data(objs[-1])))
                    expect.append(None)
                elif e == "move-input-to-output" and kind == "contract":
                    d = _copy.deepcopy(case["base"])
                    used = {n for t in d["a"] for n in t[0]}
                    if d["i"] and d["i"][-1] not in used:
                        v = d["i"].pop()
                        d["o"] = [v] + d["o"]
                        objs.append(env.C(d))
                        expect.append(True)
                    else:
                        objs.append(base.copy())
                        expect.append(False)
                elif e == "inplace-simplify":
                    # built without simplification, hashed, then simplified in place: must equal (and hash like) the
                    # contract built with the default simplification when the guarantees come out the same
                    o = env.C(case["base"], False)
                    hash(o)
                    o.simplify()
                    objs.append(o)
                    expect.append(None)
                elif e == "roundtrip-dict":
                    objs.append(env.PolyhedralIoContract.from_dict(base.to_machine_dict()))
                    expect.append(False)
                elif e == "roundtrip-str":
                    objs.append(env.PolyhedralIoContract.from_strings(**base.to_dict()))
                    expect.append(False)
                else:
                    d, differs = _edit_contract(case["base"], e, case["pick"], case["delta"], kind == "compound")
                    o = mk(d)
                    if differs == "built":
                        b0, b1 = env.c_data(base), env.c_data(o)
                        differs = True if (b0["a"] != b1["a"] or b0["g"] != b1["g"]) and sorted(map(str, b0["g"])) != sorted(map(str, b1["g"])) else None
                    objs.append(o)
                    expect.append(differs)
    except ValueError:
        return {"viol": None, "nontrivial": False, "labels": labels + ["construction-refused"], "outcome": "construction-refused"}
    except (env.PolyhedralSyntaxException, env.PolyhedralSyntaxConvexException):
        return {"viol": None, "nontrivial": False, "labels": labels + ["construction-refused"], "outcome": "construction-refused"}
    except Exception as ex:  # noqa: B902
        raise env.Undocumented(ex, "construct/copy") from ex

    def eq(a, b):
        try:
            return bool(a == b)
        except Exception as ex:  # noqa: B902
            raise env.Undocumented(ex, "__eq__") from ex

    def h(a):
        try:
            return hash(a)
        except TypeError:
            return None
    n = len(objs)
    E = [[eq(objs[i], objs[j]) for j in range(n)] for i in range(n)]
    H = [h(o) for o in objs]
    viol = None
    names_e = []
    for e in case["edits"]:
        names_e += [e, e] if (e in ("hash-then-rename", "rename-cancel") and kind in ("term", "list", "contract")) else [e]
    for i in range(n):
        if not E[i][i]:
            viol = {"what": "%s object is not equal to itself" % kind, "sig": {"kind": "eq-not-reflexive", "obj": kind}, "detail": {}}
        for j in range(n):
            if viol is None and E[i][j] != E[j][i]:
                viol = {"what": "equality is not symmetric", "sig": {"kind": "eq-not-symmetric", "obj": kind}, "detail": {"i": i, "j": j}}
            if viol is None and E[i][j] and H[i] is not None and H[j] is not None and H[i] != H[j]:
                viol = {"what": "equal %s objects have different hashes (edit %s)" % (kind, (["base"] + names_e + ["?"] * n)[max(i, j)]),
                        "sig": {"kind": "eq-but-hash-differs", "obj": kind}, "detail": {"i": i, "j": j}}
            for k in range(n):
                if viol is None and E[i][j] and E[j][k] and not E[i][k]:
                    viol = {"what": "equality is not transitive", "sig": {"kind": "eq-not-transitive", "obj": kind}, "detail": {}}
    for idx, (e, differs) in enumerate(zip(names_e, expect), start=1):
        if viol is not None:
            break
        if differs is False and e in ("copy", "roundtrip-dict") and not E[0][idx]:
            viol = {"what": "%s of a %s is not equal to the original" % (e, kind), "sig": {"kind": "copy-not-equal", "obj": kind, "edit": e}, "detail": {}}
        if differs is False and e in ("neg-zero", "var-order", "parsed") and kind in ("term", "list") and not E[0][idx]:
            viol = {"what": "%s with the same coefficients and constant (%s) compares unequal" % (kind, e), "sig": {"kind": "same-not-equal", "obj": kind, "edit": e}, "detail": {}}
        if differs is True and E[0][idx]:
            viol = {"what": "%s objects differing by edit '%s' compare equal" % (kind, e), "sig": {"kind": "different-but-equal", "obj": kind, "edit": e}, "detail": {}}
    nontrivial = any(e not in ("copy",) for e in case["edits"])
    return {"viol": viol or pending, "nontrivial": nontrivial, "labels": labels, "outcome": "judged"}
