"""C09  Parsing a constraint string preserves its arithmetic meaning."""
from fractions import Fraction as F

import z3
from hypothesis import strategies as st

from pv import env, exact

ID = "C09"
LEVEL = "exploration"
N = {"quick": 350, "thorough": 5000}
RULE = ("cases = expression trees of the documented grammar (sides = signed sums of [coef]var, numbers, [coef](terms), [coef]|terms|, "
        "[coef](abs-or-terms); relations: chains of 2-3 sides with <= or >=, or = / ==) up to depth 3 over <= 4 variables, each rendered in "
        "3 spellings (spacing, 2x / 2*x / 2 x, numbers as 2 / 2.0 / 2. / 2e0 / (1+1) / (4/2) / (2*3/3), .5 / 0.5 / (1/2) / 5e-1); the written "
        "relation is evaluated by an independent tree evaluator and compared with the parsed inequalities for all real points by z3 (exact "
        "on dyadic data, with the 1e-4 tolerance on decimal data); further: all spellings agree, parsing twice gives equal lists, relations "
        "whose absolute terms all have positive net weight on the smaller side are never rejected as non-convex, core forms are never "
        "rejected with the syntax error; non-trivial = at least one spelling was accepted and the tree has >= 2 items or an absolute "
        "value / group; distinct = SHA-1 of the case")
EXHAUSTIVE = {"quick": False, "thorough": False}   # the small-shape enumeration is complete in the thorough tier, the rest is sampled
ASSUMPTIONS = ["relations with a zero or negative net absolute-value weight may be rejected (convexity error) or accepted; if accepted they must be equivalent",
               "absolute terms are merged only when their inner expressions are identical (same coefficients and constant)"]

VARS = ["x", "y", "z", "w"]
# spellings of the four variables: plain, look-alikes of exponents / numbers, prefixes and underscores
NAME_SCHEMES = {"plain": {}, "exponent": {"x": "e1", "y": "E2", "z": "e", "w": "E"}, "prefix": {"x": "x1", "y": "x10", "z": "x_1", "w": "x_"},
                "mixed": {"x": "e10x", "y": "E2y", "z": "e_1", "w": "x1e5"}}
_NAMES = [{}]          # the scheme of the case being rendered (set by render())
DY = [1, 2, 3, 0.5, 4, 1.5, 0.25, 5, 2.5, 10, 0.75, 7, 6]
DEC = [0.1, 0.2, 0.3, 1.3, 2.7, 0.7, 1.1, 12.5, 0.05, 3.3]


@st.composite
def _number(draw, cls):
    return {"val": float(draw(st.sampled_from(DY if cls == "dyadic" else DY + DEC + DEC)))}


@st.composite
def _coef(draw, cls):
    return draw(st.one_of(st.none(), st.none(), _number(cls)))


@st.composite
def _side(draw, cls, depth, allow_abs, allow_pgrp, nmax=3):
    n = draw(st.integers(1, nmax))
    items = []
    for _ in range(n):
        kinds = ["var", "var", "var", "num"]
        if depth > 0:
            kinds += ["grp"]
            if allow_abs:
                kinds += ["abs", "abs"]
            if allow_pgrp:
                kinds += ["pgrp"]
        k = draw(st.sampled_from(kinds))
        it = {"s": draw(st.sampled_from([1, 1, -1])), "k": k}
        if k == "var":
            it["c"] = draw(_coef(cls))
            it["v"] = draw(st.sampled_from(VARS))
        elif k == "num":
            it["n"] = draw(_number(cls))
        elif k == "grp":
            it["c"] = draw(_coef(cls))
            it["in"] = draw(_side(cls, depth - 1, False, False, 2))
        elif k == "abs":
            it["c"] = draw(_coef(cls))
            it["in"] = draw(_side(cls, depth - 1, False, False, 2))
        else:
            it["c"] = draw(_coef(cls))
            it["in"] = draw(_side(cls, depth - 1, True, False, 2))
        items.append(it)
    return items


@st.composite
def _case(draw):
    cls = draw(st.sampled_from(["dyadic", "dyadic", "dyadic", "decimal"]))
    rel = draw(st.sampled_from(["<=", "<=", "<=", ">=", ">=", "=", "=="]))
    depth = draw(st.integers(0, 2))
    if rel in ("=", "=="):
        sides = [draw(_side(cls, depth, False, False)), draw(_side(cls, depth, False, False))]
    else:
        ns = draw(st.sampled_from([2, 2, 2, 3]))
        sides = [draw(_side(cls, depth, True, True)) for _ in range(ns)]
        if ns == 2 and draw(st.integers(0, 3)) > 0:
            # bias towards convex uses: absolute values with positive weight on the smaller side
            small, large = (sides[0], sides[1]) if rel == "<=" else (sides[1], sides[0])
            for it in small:
                if it["k"] in ("abs", "pgrp"):
                    it["s"] = 1
            for it in large:
                if it["k"] in ("abs", "pgrp"):
                    it["s"] = -1
        focus = draw(st.sampled_from(["none", "none", "repeat-abs", "abs-both-sides", "repeat-var", "abs-variants", "cancel-abs", "tiny-repeat"]))
        if focus == "repeat-abs":
            inner = draw(_side(cls, 0, False, False, 2))
            tgt = sides[0] if rel == "<=" else sides[-1]
            for _ in range(draw(st.integers(2, 3))):
                tgt.insert(draw(st.integers(0, len(tgt))), {"s": 1, "k": "abs", "c": draw(_coef(cls)), "in": [dict(i) for i in inner]})
        elif focus == "abs-both-sides":
            inner = draw(_side(cls, 0, False, False, 2))
            big, small = draw(st.sampled_from([(3, 1), (2, 1), (1, 1), (1, 2), (2.5, 0.5)]))
            lo, hi = (sides[0], sides[1]) if rel == "<=" else (sides[1], sides[0])
            lo.append({"s": 1, "k": "abs", "c": {"val": float(big)}, "in": [dict(i) for i in inner]})
            hi.append({"s": 1, "k": "abs", "c": {"val": float(small)}, "in": [dict(i) for i in inner]})
        elif focus == "cancel-abs":
            # the same absolute term several times with weights whose partial sums pass through zero (or an explicit zero weight),
            # net weight positive on the smaller side
            inner = draw(_side(cls, 0, False, False, 2))
            tgt = sides[0] if rel == "<=" else sides[-1]
            c = float(draw(st.sampled_from([1, 2, 0.5, 1])))
            seq = draw(st.sampled_from([[c, -c, c], [c, -c, 2 * c], [0.0, c], [c, 0.0, c], [-c, c, c], [c, c, -c]]))
            for wgt in seq:
                tgt.append({"s": -1 if wgt < 0 else 1, "k": "abs", "c": (None if abs(wgt) == 1 and draw(st.booleans()) else {"val": abs(wgt)}),
                            "in": [dict(i) for i in inner]})
        elif focus == "abs-variants":
            # two absolute terms that look alike but are different functions (or the same one written differently)
            inner = draw(_side(cls, 0, False, False, 3))
            if len(inner) < 2:
                inner.append({"s": 1, "k": "var", "c": None, "v": draw(st.sampled_from(VARS))})
            how = draw(st.sampled_from(["flip-one", "negate-all", "reorder", "flip-last", "scale", "near"]))
            other = [dict(i) for i in inner]
            if how == "flip-one":
                other[0]["s"] = -other[0]["s"]
            elif how == "flip-last":
                other[-1]["s"] = -other[-1]["s"]
            elif how == "negate-all":
                for i in other:
                    i["s"] = -i["s"]
            elif how == "reorder":
                other = list(reversed(other))
            elif how == "near":
                # same inner expression up to a relative 2^-13 on the variable coefficients: prints alike at 4 digits, differs in value
                rel_ = 2.0 ** -draw(st.sampled_from([13, 13, 22]))      # visible at 4 digits or only from the 7th digit on
                for i in other:
                    if i["k"] == "var":
                        i["c"] = {"val": (1 + rel_) * (i["c"]["val"] if i.get("c") else 1.0)}
            else:
                for i in other:
                    if i["k"] == "var":
                        i["c"] = {"val": 2.0 * (i["c"]["val"] if i.get("c") else 1.0)}
                    else:
                        i["n"] = {"val": 2.0 * i["n"]["val"]}
            tgt = sides[0] if rel == "<=" else sides[-1]
            tgt.append({"s": 1, "k": "abs", "c": draw(_coef(cls)), "in": inner})
            tgt.append({"s": 1, "k": "abs", "c": draw(_coef(cls)), "in": other})
        elif focus == "tiny-repeat":
            # a variable written several times with tiny coefficients (2^-35..2^-33) whose sum is tiny but usually not zero
            v = draw(st.sampled_from(VARS))
            for _ in range(draw(st.integers(2, 3))):
                sd = draw(st.sampled_from(sides))
                sd.append({"s": draw(st.sampled_from([1, 1, -1])), "k": "var", "c": {"val": draw(st.sampled_from([2.0 ** -34, 2.0 ** -33, 3 * 2.0 ** -35]))}, "v": v})
        elif focus == "repeat-var":
            v = draw(st.sampled_from(VARS))
            for sd in sides:
                sd.append({"s": draw(st.sampled_from([1, -1])), "k": "var", "c": draw(_coef(cls)), "v": v})
    spell = [[draw(st.integers(0, 1000)) for _ in range(8)] for _ in range(3)]
    case = {"cls": cls, "rel": rel, "sides": sides, "spell": spell}
    nm = draw(st.sampled_from(["plain", "plain", "plain", "exponent", "prefix", "mixed"]))
    if nm != "plain":
        case["names"] = nm
    if draw(st.integers(0, 9)) == 0:
        case["mpos"] = draw(st.integers(0, 1000))
        case["malform"] = MALFORMATIONS[(case["mpos"] * 7 + spell[0][0]) % len(MALFORMATIONS)]
    return case


MALFORMATIONS = ["no-relation", "drop-close-paren", "drop-open-paren", "double-relation", "trailing-operator", "empty-side",
                 "illegal-character", "drop-bar", "mixed-chain"]


def malform(s, kind, pos, rel):
    """turn a well-formed rendering into a string that is certainly outside the documented grammar; None if not applicable"""
    import re
    ops = [m for m in re.finditer(r"<=|>=|==|=", s)]
    if kind == "no-relation":
        return re.sub(r"<=|>=|==|=", " ", s)
    if kind == "drop-close-paren":
        idx = [i for i, ch in enumerate(s) if ch == ")"]
        return (s[:idx[pos % len(idx)]] + s[idx[pos % len(idx)] + 1:]) if idx else None
    if kind == "drop-open-paren":
        idx = [i for i, ch in enumerate(s) if ch == "("]
        return (s[:idx[pos % len(idx)]] + s[idx[pos % len(idx)] + 1:]) if idx else None
    if kind == "drop-bar":
        idx = [i for i, ch in enumerate(s) if ch == "|"]
        return (s[:idx[pos % len(idx)]] + s[idx[pos % len(idx)] + 1:]) if idx else None
    if kind == "double-relation":
        m = ops[pos % len(ops)]
        return s[:m.end()] + " " + m.group(0) + s[m.end():]
    if kind == "trailing-operator":
        return s + [" +", " -", " *", " <="][pos % 4]
    if kind == "empty-side":
        m = ops[0]
        return s[m.start():] if pos % 2 else s[:ops[-1].end()]
    if kind == "illegal-character":
        k = pos % (len(s) + 1)
        return s[:k] + ["$", ";", "#", "&", "^", "~", "@"][pos % 7] + s[k:]
    if kind == "mixed-chain":
        if rel not in ("<=", ">=") or not ops:
            return None
        return s + (" >= 1" if rel == "<=" else " <= 1")
    return None


def strategy(tier):
    return _case()


# ---- bounded-exhaustive small shapes: sides of 1-2 items from a 10-item alphabet, every ordered pair of sides, <= / >= / =
def _alphabet():
    v = lambda name, s=1, c=None: {"s": s, "k": "var", "c": ({"val": c} if c else None), "v": name}  # noqa: E731
    ab = lambda inner, c=None: {"s": 1, "k": "abs", "c": ({"val": c} if c else None), "in": inner}  # noqa: E731
    return [v("x"), v("x", -1), v("x", 1, 2.0), v("y"), v("y", -1, 0.5), {"s": 1, "k": "num", "n": {"val": 1.0}},
            {"s": -1, "k": "num", "n": {"val": 2.0}}, ab([v("x")]), ab([v("y")], 2.0), ab([v("x"), v("y", -1)])]


def enumerate_cases(tier):
    import itertools
    al = _alphabet()
    sides = [[a] for a in al] + [[a, b] for a in al for b in al]
    stride = 1 if tier == "thorough" else 41
    idx = 0
    for left, right in itertools.product(sides, sides):
        for rel in ("<=", ">=", "="):
            if rel == "=" and any(it["k"] == "abs" for it in left + right):
                continue
            idx += 1
            if idx % stride:
                continue
            sp = [[(idx * 31 + 7 * k + j * 13) % 1000 for j in range(8)] for k in range(3)]
            yield {"cls": "dyadic", "rel": rel, "sides": [[dict(i) for i in left], [dict(i) for i in right]], "spell": sp, "enum": True}


# ---------------------------------------------------------------- rendering
class Spell:
    def __init__(self, seeds):
        self.seeds = list(seeds)
        self.i = 0
        self.style = self.seeds[0] % 3           # 0 compact, 1 single spaces, 2 wide/tabs

    def pick(self, n):
        self.i += 1
        s = self.seeds[self.i % len(self.seeds)]
        self.seeds[self.i % len(self.seeds)] = (s * 7919 + 13) % 1000003
        return s % n

    def sp(self):
        return ["", " ", " \t"][self.style] if self.pick(4) else " "

    def opsp(self):
        return ["", " ", "  "][self.style]


def _fmt(v):
    return ("%d" % v) if float(v).is_integer() else repr(float(v))


def number_spellings(val, coef_pos):
    """equivalent spellings of a number; coef_pos: used as a multiplier in front of a variable / group / absolute value
    (there '(1+1)' would be read as a parenthesised term list, so only spellings with * or / are used)"""
    f = F(val)
    r = repr(float(val))
    if f.denominator == 1:
        n = int(f)
        out = ["%d" % n, "%d.0" % n, "%d." % n, "%de0" % n, "%d.00" % n, "(%d*2/2)" % n, "(%d/1)" % n, "(2*%d/2)" % n, "(%d*1*1)" % n,
               "%de+0" % n, "%dE0" % n, "%d.0e+00" % n, "%dE-0" % n]
        if not coef_pos:
            out += ["(%d+1)" % (n - 1), "(%d-1)" % (n + 1), "(1+%d-1+0)" % n, "(%d)" % n] if n >= 1 else []
        if n % 10 == 0 and n > 0:
            out += ["%de1" % (n // 10), "%de+1" % (n // 10), "%dE+01" % (n // 10), "%d.e+1" % (n // 10)]
        return out
    if "e" in r:
        m, e = r.split("e")        # repr uses exponent notation for tiny values: vary the mantissa / exponent spelling only
        return [r, m + "0e" + e, m + "E" + e, m + "e" + e[0] + "0" + e[1:]]
    out = [r, r + "0"]
    if r.startswith("0."):
        out.append(r[1:])
    if f.denominator in (2, 4, 8):
        out += ["(%d/%d)" % (f.numerator, f.denominator), "(%d/%d)" % (f.numerator * 2, f.denominator * 2), "(%s*2/2)" % r, "(%d/2/%d)" % (f.numerator, f.denominator // 2)]
        if (f * 10).denominator == 1:
            out += ["%de-1" % int(f * 10), "%dE-1" % int(f * 10), "%d.0e-01" % int(f * 10)]
        if (f * 100).denominator == 1:
            out.append("0.%02de+1" % int(f * 10) if f < 10 and (f * 10).denominator == 1 and f * 10 < 100 else r)
    elif not coef_pos:
        out.append("(%s)" % r)
    return out


def r_number(num, sp, coef_pos=False):
    opts = number_spellings(num["val"], coef_pos)
    return opts[sp.pick(len(opts))]


def r_coef(c, sp):
    """coefficient prefix incl. attachment"""
    if c is None:
        return ""
    s = r_number(c, sp, True)
    att = sp.pick(3)
    if att == 0:
        return s + ("" if sp.style == 0 else " ")
    if att == 1:
        return s + "*"
    return s + " * " if sp.style else s + "*"


def r_side(items, sp):
    out = ""
    for idx, it in enumerate(items):
        if idx == 0:
            sign = "-" if it["s"] < 0 else ("+" if sp.pick(9) == 0 else "")
            out += sign + (sp.opsp() if sign and sp.pick(2) else "")
        else:
            out += sp.opsp() + ("-" if it["s"] < 0 else "+") + sp.opsp()
        k = it["k"]
        if k == "var":
            cs, name = r_coef(it["c"], sp), _NAMES[0].get(it["v"], it["v"])
            if cs and cs[-1] not in "* " and name[0] in "eE":
                cs += " "       # "2e1" is the number 20 in any reading; "2 e1" and "2*e1" are two times the variable e1
            out += cs + name
        elif k == "num":
            out += r_number(it["n"], sp)
        elif k == "grp":
            out += r_coef(it["c"], sp) + "(" + sp.sp() + r_side(it["in"], sp) + sp.sp() + ")"
        elif k == "abs":
            out += r_coef(it["c"], sp) + "|" + sp.sp() + r_side(it["in"], sp) + sp.sp() + "|"
        else:
            out += r_coef(it["c"], sp) + "(" + sp.sp() + r_side(it["in"], sp) + sp.sp() + ")"
    return out


def render(case, k):
    sp = Spell(case["spell"][k])
    _NAMES[0] = NAME_SCHEMES[case.get("names", "plain")]
    rel = case["rel"]
    if rel in ("=", "=="):
        rel = ["=", "=="][sp.pick(2)] if k else rel
    return (sp.opsp() + rel + sp.opsp()).join(r_side(s, sp) for s in case["sides"])


# ---------------------------------------------------------------- reference evaluation
def z_side(items):
    e = z3.RealVal(0)
    for it in items:
        k = it["k"]
        c = exact.zq(it["c"]["val"]) if it.get("c") else z3.RealVal(1)
        if k == "var":
            v = c * exact.zv(it["v"])
        elif k == "num":
            v = exact.zq(it["n"]["val"])
        else:
            inner = z_side(it["in"])
            v = c * (z3.If(inner >= 0, inner, -inner) if k == "abs" else inner)
        e = e + v if it["s"] > 0 else e - v
    return e


def f_side(items, pt):
    e = F(0)
    for it in items:
        k = it["k"]
        c = F(it["c"]["val"]) if it.get("c") else F(1)
        if k == "var":
            v = c * pt.get(it["v"], F(0))
        elif k == "num":
            v = F(it["n"]["val"])
        else:
            inner = f_side(it["in"], pt)
            v = c * (abs(inner) if k == "abs" else inner)
        e = e + v if it["s"] > 0 else e - v
    return e


def written_holds(case, pt, slack=F(0)):
    vals = [f_side(s, pt) for s in case["sides"]]
    rel = case["rel"]
    if rel == "<=":
        return all(a <= b + slack for a, b in zip(vals, vals[1:]))
    if rel == ">=":
        return all(a + slack >= b for a, b in zip(vals, vals[1:]))
    return abs(vals[0] - vals[1]) <= slack


def z_written(case, slack=0):
    zs = [z_side(s) for s in case["sides"]]
    rel = case["rel"]
    sl = exact.zq(slack)
    if rel == "<=":
        return z3.And([a <= b + sl for a, b in zip(zs, zs[1:])])
    if rel == ">=":
        return z3.And([a + sl >= b for a, b in zip(zs, zs[1:])])
    return z3.And(zs[0] - zs[1] <= sl, zs[1] - zs[0] <= sl)


def _model_point(m, names):
    return {n: exact._num(m.eval(exact.zv(n), model_completion=True)) for n in names}


def compare(case, terms, names=None):
    """None or a description of a point where parsed terms and written relation disagree."""
    names = names or VARS
    tol = F(0) if case["cls"] == "dyadic" else F(1, 10000)
    box = None if case["cls"] == "dyadic" else exact.BOX
    P = exact.to_z3(exact.conj(terms))
    for direction in ("parsed-not-written", "written-not-parsed"):
        s = z3.Solver()
        s.set("timeout", exact.Z3_TIMEOUT_MS)
        if box:
            for n in names:
                s.add(exact.zv(n) <= box, exact.zv(n) >= -box)
        if direction == "parsed-not-written":
            s.add(P, z3.Not(z_written(case, tol * 20 if tol else 0)))
        else:
            s.add(z_written(case), exact.to_z3(("or", [exact.gt(t, exact.tol(t) if tol else 0) for t in terms])))
        r = s.check()
        exact.QUERIES[0] += 1
        if r == z3.unsat:
            continue
        if r != z3.sat:
            raise exact.Inconclusive("z3: %s" % r)
        pt = _model_point(s.model(), names)
        p_holds = exact.holds_exact(terms, pt)
        if direction == "parsed-not-written":
            ok = p_holds and not written_holds(case, pt, tol * 20 if tol else F(0))
        else:
            ok = written_holds(case, pt) and not all(exact.term_lhs(t, pt) <= exact.fr(t[1]) + (exact.tol(t) if tol else 0) for t in terms)
        if not ok:
            raise exact.Inconclusive("model failed the Fraction re-check")
        return {"direction": direction, "point": exact.pt_json(pt)}
    return None


# ---------------------------------------------------------------- convexity bookkeeping (net weights of identical absolute terms)
def _lin(items, scale, acc_lin, acc_abs):
    for it in items:
        k = it["k"]
        c = (F(it["c"]["val"]) if it.get("c") else F(1)) * scale * it["s"]
        if k == "var":
            acc_lin[it["v"]] = acc_lin.get(it["v"], F(0)) + c
        elif k == "num":
            acc_lin[""] = acc_lin.get("", F(0)) + F(it["n"]["val"]) * scale * it["s"]
        elif k == "abs":
            inner = {}
            _lin(it["in"], F(1), inner, {})
            key = tuple(sorted((n, v) for n, v in inner.items() if v != 0))
            acc_abs[key] = acc_abs.get(key, F(0)) + c
        else:
            _lin(it["in"], c, acc_lin, acc_abs)


def abs_weights(case):
    """per adjacent pair: dict inner-form -> net weight on the smaller side minus the larger side"""
    out = []
    sides = case["sides"]
    for a, b in zip(sides, sides[1:]):
        wa, wb = {}, {}
        _lin(a, F(1), {}, wa)
        _lin(b, F(1), {}, wb)
        lo, hi = (wa, wb) if case["rel"] == "<=" else (wb, wa)
        net = dict(lo)
        for k, v in hi.items():
            net[k] = net.get(k, F(0)) - v
        out.append(net)
    return out


def has_abs(items):
    return any(it["k"] == "abs" or (it["k"] in ("grp", "pgrp") and has_abs(it["in"])) for it in items)


def judge_string(s):
    """Oracle for an arbitrary string (fuzzing / saved inputs): exception contract, repeatability, and - when the
    independent reference reader can read it too - equivalence with the written relation.  -> (viol|None, label)"""
    import math

    from pv import refparse
    parse = env.serializer.polyhedral_termlist_from_string
    try:
        ts = parse(s)
        ts2 = parse(s)
    except env.PolyhedralSyntaxConvexException:
        tree = refparse.read(s)
        if tree is not None and tree["rel"] in ("<=", ">="):
            w = abs_weights(tree)
            if all(v > 0 for net in w for v in net.values()) and refparse.max_number(tree) < 1e6:
                return {"what": "%r rejected as non-convex although every absolute term has positive net weight on the smaller side" % s,
                        "sig": {"kind": "spurious-convexity-error"}, "detail": {"string": s}}, "convex"
        return None, "convex"
    except env.PolyhedralSyntaxException:
        return None, "syntax"
    except ValueError:
        return None, "valueerror"
    except Exception as e:  # noqa: B902
        raise env.Undocumented(e, "polyhedral_termlist_from_string(%r)" % s) from e
    d1, d2 = env.tl_data(env.PolyhedralTermList(ts)), env.tl_data(env.PolyhedralTermList(ts2))
    if d1 != d2:
        return {"what": "parsing %r twice gave different results" % s, "sig": {"kind": "parse-not-repeatable"}, "detail": {"string": s}}, "ok"
    tree = refparse.read(s)
    if tree is None:
        return None, "ok-ref-unreadable"
    nums = [abs(v) for t in d1 for v in list(t[0].values()) + [t[1]]]
    if refparse.max_number(tree) > 1e6 or any((not math.isfinite(v)) or v > 1e9 for v in nums):
        return None, "ok-out-of-range"
    names = sorted(set(refparse.variables(tree)) | {n for t in d1 for n in t[0]})
    if len(names) > 6:
        return None, "ok-too-many-variables"
    d = compare({"cls": "decimal", "rel": tree["rel"], "sides": tree["sides"]}, d1, names)
    if d:
        return {"what": "parsed %r as %s, which differs from the written relation (%s)" % (s, d1, d["direction"]),
                "sig": {"kind": "parse-meaning", "abs": any(has_abs(x) for x in tree["sides"]), "rel": tree["rel"]},
                "detail": dict(d, string=s, parsed=d1)}, "ok"
    return None, "ok-equivalent"


def run_case(case):
    if "string" in case:
        viol, label = judge_string(case["string"])
        return {"viol": viol, "nontrivial": label == "ok-equivalent", "labels": ["raw-string", "outcome:" + label], "outcome": label, "note": case["string"]}
    labels = ["rel:" + case["rel"], "num:" + case["cls"]]
    if case.get("malform"):
        bad = malform(render(case, 0), case["malform"], case.get("mpos", 0), case["rel"])
        labels.append("malformed:" + case["malform"])
        if bad is None:
            return {"viol": None, "nontrivial": False, "labels": labels + ["not-applicable"], "outcome": "skipped"}
        try:
            got = env.serializer.polyhedral_termlist_from_string(bad)
        except (env.PolyhedralSyntaxException, ValueError):
            return {"viol": None, "nontrivial": True, "labels": labels + ["rejected"], "outcome": "malformed-rejected", "note": bad}
        except env.PolyhedralSyntaxConvexException:
            return {"viol": None, "nontrivial": True, "labels": labels + ["rejected-convex"], "outcome": "malformed-rejected", "note": bad}
        except Exception as e:  # noqa: B902
            raise env.Undocumented(e, "polyhedral_termlist_from_string(%r)" % bad) from e
        return {"viol": {"what": "malformed string %r (%s) was accepted and read as %s" % (bad, case["malform"], got),
                         "sig": {"kind": "malformed-accepted", "malformation": case["malform"]}, "detail": {"string": bad}},
                "nontrivial": True, "labels": labels, "outcome": "malformed-accepted", "note": bad}
    any_abs = any(has_abs(s) for s in case["sides"])
    labels.append("abs:%s" % any_abs)
    weights = abs_weights(case) if case["rel"] in ("<=", ">=") else []
    all_pos = all(v > 0 for net in weights for v in net.values())
    any_neg = any(v < 0 for net in weights for v in net.values())
    labels.append("abs-weights:" + ("none" if not any_abs else "all-positive" if all_pos else "some-negative" if any_neg else "some-zero"))
    outcomes = []
    strings = [render(case, k) for k in range(3)]
    viol = None
    parse = env.serializer.polyhedral_termlist_from_string
    for s in strings:
        try:
            try:
                parse(s.replace(" ", ""))      # the same characters without blanks may be another relation (2 e1 / 2e1): reading it
            except Exception:  # noqa: B902    # first must not influence how s itself is read
                pass
            ts = parse(s)
            ts2 = parse(s)
            back = {v: k for k, v in NAME_SCHEMES[case.get("names", "plain")].items()}
            unname = lambda tl: [[{back.get(n, n): c for n, c in t[0].items()}, t[1]] for t in tl]  # noqa: E731
            outcomes.append(("ok", unname(env.tl_data(env.PolyhedralTermList(ts))), s))
            if unname(env.tl_data(env.PolyhedralTermList(ts2))) != outcomes[-1][1] or not (ts == ts2):
                viol = {"what": "parsing %r twice gave different results" % s, "sig": {"kind": "parse-not-repeatable"}, "detail": {"string": s}}
        except env.PolyhedralSyntaxConvexException:
            outcomes.append(("convex", None, s))
        except env.PolyhedralSyntaxException:
            outcomes.append(("syntax", None, s))
        except ValueError:
            outcomes.append(("valueerror", None, s))
        except Exception as e:  # noqa: B902
            raise env.Undocumented(e, "polyhedral_termlist_from_string(%r)" % s) from e
    kinds = sorted({o[0] for o in outcomes})
    labels += ["outcome:" + k for k in kinds]
    if viol is None and len(kinds) > 1:
        viol = {"what": "equivalent spellings are treated differently: %s" % [(o[2], o[0]) for o in outcomes],
                "sig": {"kind": "spellings-disagree", "outcomes": kinds}, "detail": {"strings": strings}}
    if viol is None:
        for kind, ts, s in outcomes:
            if kind == "ok":
                d = compare(case, ts)
                if d:
                    viol = {"what": "parsed %r as %s, which differs from the written relation (%s)" % (s, ts, d["direction"]),
                            "sig": {"kind": "parse-meaning", "abs": any_abs, "rel": case["rel"] if case["rel"] in ("<=", ">=") else "="},
                            "detail": dict(d, string=s, parsed=ts)}
                    break
            elif kind == "convex":
                if not any_abs or all_pos:
                    viol = {"what": "%r rejected as non-convex although every absolute term has positive net weight on the smaller side" % s,
                            "sig": {"kind": "spurious-convexity-error"}, "detail": {"string": s}}
                    break
            elif kind in ("syntax", "valueerror"):
                viol = {"what": "%r (a form of the documented grammar) rejected with %s" % (s, kind),
                        "sig": {"kind": "core-form-rejected", "error": kind}, "detail": {"string": s}}
                break
    size = sum(len(s) for s in case["sides"])
    nontrivial = any(o[0] == "ok" for o in outcomes) and (size >= 3 or any_abs or any(it["k"] != "var" for s in case["sides"] for it in s))
    return {"viol": viol, "nontrivial": nontrivial, "labels": labels, "outcome": "+".join(kinds), "note": strings[0]}


def extra_campaign(tier, seed):
    """thorough tier: coverage-guided byte-level fuzzing of the parser (atheris/libFuzzer), once from the corpus of strings taken
    from the repository's tests and once from an empty corpus; the oracle inside the target is judge_string()."""
    if tier != "thorough":
        return None
    try:
        import sys
        sys.path.insert(0, env.VERIF + "/.deps")
        import atheris  # noqa: F401
    except Exception:  # noqa: B902
        return {"coverage": {"fuzz": "atheris not importable: campaign skipped"}}
    from pv import fuzzrun
    runs = [fuzzrun.campaign(seed, 6000, 420, True), fuzzrun.campaign(seed, 3000, 240, False)]
    fails = [f for r in runs for f in r["failures"]]
    n = sum(r["stats"].get("executions", 0) for r in runs)
    return {"coverage": {"fuzz_campaigns": [{k: v for k, v in r.items() if k != "failures"} for r in runs]}, "failures": fails, "evaluations": n}
