"""C10  Contracts survive serialisation to dictionaries, strings and files."""
import json
import os
import tempfile
from fractions import Fraction as F

from hypothesis import strategies as st

from pv import env, exact

ID = "C10"
LEVEL = "exploration"
N = {"quick": 1200, "thorough": 6000}
RULE = ("cases = (contract whose terms each mention >= 1 variable, coefficient/constant magnitudes in [1e-4,1e6] in number classes int / "
        "<=4 significant digits / arbitrary float, exactly-opposite term pairs inserted at any position with equal / negated / unrelated / "
        "zero constants, lexer-stressing variable names; route in machine-dict, machine-file, strings, human-file); oracles: machine dict "
        "round trip exact and ==; machine file: same interface, names, meaning; strings: every printed string parses, same interface, A and "
        "A&G exactly equivalent (z3, all reals) to the original with every number replaced by float('%.4g'); human file (reader simplifies): "
        "meaning within tolerance, judged only when the rounded system is robustly feasible; non-trivial = contract has >= 2 terms and the "
        "round trip was judged; distinct = SHA-1 of the case")
ASSUMPTIONS = ["opposite pairs are generated with exactly negated coefficients, so 'the digits that were printed' are unambiguous"]

NAMEPOOL = ["a", "b", "e", "E1", "x_1", "inf", "nan", "o_p", "x", "y2"]


def r4(x):
    return float("%.4g" % x)


@st.composite
def _num(draw, cls, allow_zero=False):
    if allow_zero and draw(st.integers(0, 5)) == 0:
        return 0.0
    sgn = draw(st.sampled_from([1, 1, -1]))
    if cls == "int":
        return float(sgn * draw(st.one_of(st.integers(1, 12), st.integers(1, 999), st.integers(1000, 10 ** 6))))
    mag = 10 ** draw(st.floats(-4, 6, allow_nan=False))
    mag = min(max(mag, 1e-4), 1e6)
    if cls == "dec4":
        return sgn * r4(mag)
    return sgn * mag


@st.composite
def _contract(draw):
    cls = draw(st.sampled_from(["int", "dec4", "dec4", "float"]))
    names = draw(st.lists(st.sampled_from(NAMEPOOL), min_size=2, max_size=5, unique=True))
    ni = draw(st.integers(1, len(names) - 1))
    ins, outs = names[:ni], names[ni:]
    w = {n: draw(st.sampled_from([0.0, 1.0, -1.0, 2.0, 0.5, -3.0, 10.0])) for n in names}

    def term(pool):
        k = draw(st.integers(1, min(3, len(pool))))
        vs = draw(st.lists(st.sampled_from(pool), min_size=k, max_size=k, unique=True))
        co = {v: draw(_num(cls)) for v in vs}
        scale = sum(abs(a * w[v]) for v, a in co.items()) + 1
        c0 = sum(a * w[v] for v, a in co.items()) + scale * draw(st.sampled_from([0.05, 0.2, 1.0]))
        c = {"int": float(round(c0) + 1), "dec4": r4(c0), "float": c0}[cls]
        if draw(st.integers(0, 9)) == 0:
            c = draw(_num(cls, True))
        return [co, c]

    def tlist(pool, lo, hi):
        ts = [term(pool) for _ in range(draw(st.integers(lo, hi)))]
        pairs = []
        for _ in range(draw(st.integers(0, 2))):
            if not ts:
                break
            src = draw(st.sampled_from(ts))
            how = draw(st.sampled_from(["equal", "negated", "unrelated", "zero", "small-close", "small-close-coef"]))
            neg = {k: -v for k, v in src[0].items()}
            if how.startswith("small-close"):
                # small numbers that are close in absolute terms (1e-6..9e-6) but different at 4 significant digits:
                # a correct printer (relative tolerance) must not fold them
                base = r4(draw(st.floats(1e-4, 9e-3)))
                delta = draw(st.integers(2, 9)) * 1e-6
                if how == "small-close":
                    src[1] = base
                    t = [neg, r4(draw(st.sampled_from([1, -1])) * base + delta)]
                else:
                    v0 = sorted(src[0])[0]
                    src[0][v0] = base
                    neg = {k: -v for k, v in src[0].items()}
                    neg[v0] = r4(-base + delta)
                    t = [neg, draw(st.sampled_from([src[1], -src[1]]))]
                pairs.append(how)
                ts.insert(draw(st.integers(0, len(ts))), t)
                continue
            if how == "equal":
                c = abs(src[1]) + (1 if src[1] == 0 else 0)
                src[1] = c
                t = [neg, c]
            elif how == "negated":
                t = [neg, -src[1]]
            elif how == "zero":
                src[1] = 0.0
                t = [neg, 0.0]
            else:
                # clearly different from +-constant of the partner (the printer folds constants within 1e-5 relative)
                t = [neg, abs(draw(_num(cls, True))) + abs(src[1]) * draw(st.sampled_from([1.5, 2, 3])) + 1]
                if cls == "dec4":
                    t[1] = r4(t[1])
            pairs.append(how)
            ts.insert(draw(st.integers(0, len(ts))), t)
        return ts, pairs
    a, p1 = tlist(ins, 0, 2)
    g, p2 = tlist(ins + outs, 1, 3)
    return {"a": a, "g": g, "i": ins, "o": outs}, cls, sorted(set(p1 + p2))


@st.composite
def _case(draw):
    c, cls, pairs = draw(_contract())
    return {"c": c, "numclass": cls, "pairs": pairs,
            "route": draw(st.sampled_from(["machine-dict", "machine-file", "strings", "strings", "human-file"])),
            "cname": draw(st.sampled_from(["c1", "my contract", "x"])), "pre": draw(st.sampled_from(["none", "none", "none", "print-then-rename"]))}


def strategy(tier):
    return _case()


def rounded(ts):
    return [[{k: r4(v) for k, v in t[0].items()}, r4(t[1])] for t in ts]


def _file_roundtrip(con, name, machine):
    from pacti.utils.fileio import read_contracts_from_file, write_contracts_to_file
    fd, path = tempfile.mkstemp(suffix=".json", prefix="pv_c10_")
    os.close(fd)
    try:
        write_contracts_to_file([con], [name], path, machine_representation=machine)
        raw = json.load(open(path))
        cs, names = read_contracts_from_file(path)
        return cs, names, raw
    finally:
        os.unlink(path)


def _meaning_viol(what, d_back, ref_a, ref_g, names, rel, box):
    v = _meaning_viol0(what, d_back, ref_a, ref_g, names, rel, box)
    if v is not None:
        mags = [abs(x) for t in ref_a + ref_g for x in t[0].values() if x != 0]
        v["sig"]["ill_conditioned"] = bool(mags) and max(mags) / min(mags) >= 1e5
        d = v["detail"]
        v["sig"]["marginal"] = bool(d["lhs_float"] - d["bound"] <= 1e-2 * (1 + abs(d["bound"])))
    return v


def _meaning_viol0(what, d_back, ref_a, ref_g, names, rel, box):
    e = exact.equivalent(d_back["a"], ref_a, names, rel=rel, box=box)
    if e:
        return {"what": "%s: assumptions differ from the expected reading (%s)" % (what, e["direction"]),
                "sig": {"kind": "roundtrip-meaning", "route": what, "part": "assumptions", "large": abs(e["term"][1]) >= 1e5}, "detail": dict(e, back=d_back)}
    e = exact.equivalent(d_back["a"] + d_back["g"], ref_a + ref_g, names, rel=rel, box=box)
    if e:
        return {"what": "%s: assumptions+guarantees differ from the expected reading (%s)" % (what, e["direction"]),
                "sig": {"kind": "roundtrip-meaning", "route": what, "part": "guarantees", "large": abs(e["term"][1]) >= 1e5}, "detail": dict(e, back=d_back)}
    return None


def run_case(case):
    c, route = case["c"], case["route"]
    labels = ["route:" + route, "num:" + case["numclass"]] + ["pair:" + p for p in case["pairs"]]
    s0, con = env.call("construct", env.C, c, False)
    if s0 != "ok":
        return {"viol": None, "nontrivial": False, "labels": labels + ["construction-refused"], "outcome": "construction-refused"}
    if case.get("pre") == "print-then-rename":
        # multi-step: the contract is printed, then a variable is renamed (fresh name), and the renamed contract is serialised
        con.to_dict()
        str(con)
        v0 = (c["i"] + c["o"])[0]
        s1, con2 = env.call("rename_variables", con.rename_variables, [(v0, "r_n")])
        if s1 == "ok":
            con = con2
            labels.append("pre:print-then-rename")
    d0 = env.c_data(con)
    names = sorted(set(d0["i"] + d0["o"]))
    nontrivial = len(d0["a"]) + len(d0["g"]) >= 2
    viol = None
    if route == "machine-dict":
        md = con.to_machine_dict()
        json.dumps(md)
        status, back = env.call("from_dict", env.PolyhedralIoContract.from_dict, json.loads(json.dumps(md)), False, documented=env.FORMAT_DOCUMENTED)
        if status != "ok":
            viol = {"what": "from_dict(to_machine_dict(c)) raised %r" % back, "sig": {"kind": "roundtrip-raised", "route": route}, "detail": {}}
        else:
            db = env.c_data(back)
            if db != d0 or not (back == con) or hash(back) != hash(con):
                viol = {"what": "machine dictionary round trip is not exact / not ==", "sig": {"kind": "roundtrip-not-exact", "route": route}, "detail": {"back": db}}
        return {"viol": viol, "nontrivial": nontrivial, "labels": labels, "outcome": "judged"}
    if route == "strings":
        sd = con.to_dict()
        for key in ("assumptions", "guarantees"):
            for s in sd[key]:
                st_, r = env.call("parse", env.serializer.polyhedral_termlist_from_string, s, documented=env.STRING_DOCUMENTED)
                if st_ != "ok":
                    viol = {"what": "printed string %r is rejected by the parser: %s" % (s, type(r).__name__),
                            "sig": {"kind": "printed-string-rejected"}, "detail": {"string": s}}
                    return {"viol": viol, "nontrivial": nontrivial, "labels": labels, "outcome": "judged"}
        status, back = env.call("from_strings", lambda: env.PolyhedralIoContract.from_strings(**sd, simplify=False), documented=env.STRING_DOCUMENTED)
        if status != "ok":
            viol = {"what": "from_strings(to_dict(c)) raised %r" % back, "sig": {"kind": "roundtrip-raised", "route": route}, "detail": {"strings": sd}}
            return {"viol": viol, "nontrivial": nontrivial, "labels": labels, "outcome": "judged"}
        db = env.c_data(back)
        if db["i"] != d0["i"] or db["o"] != d0["o"]:
            viol = {"what": "string round trip changed the interface", "sig": {"kind": "roundtrip-interface", "route": route}, "detail": {"back": db}}
        else:
            viol = _meaning_viol("strings", db, rounded(d0["a"]), rounded(d0["g"]), names, rel=0, box=None)
            if viol:
                viol["detail"]["strings"] = sd
        return {"viol": viol, "nontrivial": nontrivial, "labels": labels, "outcome": "judged"}
    machine = route == "machine-file"
    ref_a, ref_g = (d0["a"], d0["g"]) if machine else (rounded(d0["a"]), rounded(d0["g"]))
    # the reader re-simplifies: judge ValueError only when the reference system is robustly feasible
    tight = ("and", [exact.le(t, -F(1, 1000) * (1 + abs(exact.fr(t[1])))) for t in ref_a + ref_g])
    opp_pairs = bool(set(case["pairs"]) & {"negated", "zero"})
    robust = exact.feasible([tight], None, exact.BOX) if not opp_pairs else False     # satisfiable inside the box of the numerical reading
    try:
        cs, rnames, raw = _file_roundtrip(con, case["cname"], machine)
        status = "ok"
    except (ValueError, env.FileDataFormatError, env.PolyhedralSyntaxException, env.PolyhedralSyntaxConvexException) as e:
        status, err = "refused", e
    except Exception as e:  # noqa: B902
        raise env.Undocumented(e, "file round trip") from e
    if status != "ok":
        if robust:
            viol = {"what": "%s round trip raised %s although the contract is robustly satisfiable" % (route, type(err).__name__),
                    "sig": {"kind": "roundtrip-raised", "route": route}, "detail": {"message": str(err)[:300]}}
        return {"viol": viol, "nontrivial": False, "labels": labels + ["read-raised", "robust:%s" % robust], "outcome": "raised"}
    back = cs[0]
    db = env.c_data(back)
    if rnames != [case["cname"]] or len(cs) != 1:
        viol = {"what": "file round trip lost the contract name", "sig": {"kind": "roundtrip-name", "route": route}, "detail": {}}
    elif set(db["i"]) != set(d0["i"]) or set(db["o"]) != set(d0["o"]):
        viol = {"what": "file round trip changed the interface", "sig": {"kind": "roundtrip-interface", "route": route}, "detail": {"back": db}}
    elif robust or exact.feasible([exact.conj(ref_a + ref_g)]):
        viol = _meaning_viol(route, db, ref_a, ref_g, names, rel=exact.REL, box=exact.BOX)
    return {"viol": viol, "nontrivial": nontrivial, "labels": labels + ["robust:%s" % robust], "outcome": "judged"}
