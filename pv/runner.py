"""Runner: tiers, seeds, sharding, statistics, evidence, replay, known findings, exit codes.

exit 0  property held on everything explored (KNOWN-FINDING lines possible)
exit 1  VIOLATION property=<id> replay=<path>   (a violation not listed in known_findings.jsonl)
exit 2  harness error (never a verdict)
"""
import collections
import hashlib
import importlib
import json
import multiprocessing as mp
import os
import sys
import time
import traceback

VERIF = os.path.dirname(os.path.dirname(os.path.abspath(__file__)))
KNOWN_FILE = os.path.join(VERIF, "known_findings.jsonl")

QUICK_BUDGET_S = 150     # generation stops after this; never a violation
THOROUGH_BUDGET_S = 45 * 60
SHRINK_BUDGET_S = {"quick": 25, "thorough": 150}


class ViolationFound(Exception):
    pass


def canon(obj):
    return json.dumps(obj, sort_keys=True, default=str)


def digest(obj):
    return hashlib.sha1(canon(obj).encode()).hexdigest()


def load_known(pid):
    known, fixed = [], []
    if os.path.exists(KNOWN_FILE):
        for line in open(KNOWN_FILE):
            line = line.strip()
            if not line or line.startswith("#"):
                continue
            d = json.loads(line)
            if d.get("property") != pid:
                continue
            (known if d.get("status") == "known" else fixed).append(d)
    return known, fixed


def sig_matches(entry_sig, sig):
    return all(sig.get(k) == v for k, v in entry_sig.items())


def match_known(known, sig, case=None):
    """index of the known finding that covers this violation: its signature must match and, if the entry names one specific
    input (`case` = first 12 hex digits of the case digest), the violation must come from exactly that input"""
    for i, e in enumerate(known):
        if sig_matches(e["signature"], sig) and ("case" not in e or (case is not None and digest(case)[:12] == e["case"])):
            return i
    return None


class Stats:
    def __init__(self):
        self.evals = 0
        self.nontrivial = set()
        self.labels = collections.Counter()
        self.outcomes = collections.Counter()
        self.samples = []
        self.known_hits = collections.Counter()
        self.known_samples = {}
        self.undoc = collections.Counter()
        self.undoc_samples = {}
        self.failures = []       # [(case, viol)] minimal per round
        self.skipped_after_budget = 0
        self.inconclusive = 0
        self.extra = collections.Counter()

    def dump(self):
        return {
            "evals": self.evals, "nontrivial": list(self.nontrivial), "labels": dict(self.labels),
            "outcomes": dict(self.outcomes), "samples": self.samples, "known_hits": dict(self.known_hits),
            "known_samples": self.known_samples, "undoc": dict(self.undoc), "undoc_samples": self.undoc_samples,
            "failures": self.failures, "skipped_after_budget": self.skipped_after_budget,
            "inconclusive": self.inconclusive, "extra": dict(self.extra),
        }


class Session:
    """Runs cases of one property module inside one worker process."""

    def __init__(self, mod, tier, known, deadline):
        self.mod, self.tier, self.known = mod, tier, list(known)
        self.stats = Stats()
        self.deadline = deadline
        self.last_fail = None
        self.t_first_fail = None
        self.local_excluded = []     # signatures found in earlier rounds of this worker
        self.undoc_is_violation = getattr(mod, "UNDOC_IS_VIOLATION", False)

    def judge(self, case):
        """Run the oracle on one case.  Returns None or a viol dict; updates nothing."""
        from pv import env
        try:
            out = self.mod.run_case(case)
        except env.Undocumented as u:
            out = {"viol": None, "nontrivial": False, "labels": ["undocumented-exception"],
                   "undoc": [{"type": type(u.exc).__name__, "site": u.site, "op": u.op, "msg": str(u.exc)[:200]}]}
            if self.undoc_is_violation:
                out["viol"] = {"what": "undocumented exception %s at %s during %s" % (type(u.exc).__name__, u.site, u.op),
                               "sig": {"kind": "undocumented-exception", "type": type(u.exc).__name__, "site": u.site},
                               "detail": {"message": str(u.exc)[:300]}}
        return out

    def process(self, case):
        st = self.stats
        now = time.time()
        if self.t_first_fail is not None and now - self.t_first_fail > SHRINK_BUDGET_S[self.tier]:
            return  # shrinking budget used up: make every further candidate pass
        if self.t_first_fail is None and now > self.deadline:
            st.skipped_after_budget += 1
            return
        from pv.exact import Inconclusive
        try:
            out = self.judge(case)
        except Inconclusive:
            st.inconclusive += 1
            return
        st.evals += 1
        for lab in out.get("labels", ()):
            st.labels[lab] += 1
        st.outcomes[out.get("outcome", "checked")] += 1
        for u in out.get("undoc", ()) or ():
            key = "%s@%s" % (u["type"], u["site"])
            st.undoc[key] += 1
            st.undoc_samples.setdefault(key, {"case": case, "info": u})
        if out.get("nontrivial"):
            d = digest(case)[:16]
            if d not in st.nontrivial:
                st.nontrivial.add(d)
                if len(st.samples) < 3:
                    st.samples.append({"case": case, "labels": out.get("labels", []), "note": out.get("note")})
        viol = out.get("viol")
        if viol is None:
            return
        sig = viol.get("sig", {})
        ki = match_known(self.known, sig, case)
        if ki is not None:
            st.known_hits[str(ki)] += 1
            st.known_samples.setdefault(str(ki), {"case": case, "viol": viol})
            return
        for ex in self.local_excluded:
            if ex == sig:
                st.extra["repeat-of-reported-signature"] += 1
                return
        if self.t_first_fail is None:
            self.t_first_fail = now
        self.last_fail = (case, viol)
        raise ViolationFound(viol.get("what", "violation"))

    def end_round(self):
        """Close a generation round; returns True if a new violation was recorded."""
        if self.last_fail is None:
            return False
        case, viol = self.last_fail
        self.stats.failures.append({"case": case, "viol": viol})
        self.local_excluded.append(viol.get("sig", {}))
        self.last_fail = None
        self.t_first_fail = None
        return True


def _worker(args):
    modname, tier, seed, k, nworkers, known, deadline = args
    try:
        os.environ["PYTHONHASHSEED"] = "0"
        from pv import env  # noqa: F401  (pins sys.path)
        mod = importlib.import_module(modname)
        ses = Session(mod, tier, known, deadline)
        t0 = time.time()
        # ---- replay tier: saved failing inputs (regress/<ID>/*.json), shard 0 only ---
        if k == 0:
            rdir = os.path.join(VERIF, "regress", mod.ID)
            files = sorted(os.listdir(rdir)) if os.path.isdir(rdir) else []
            for fn in files:
                if not fn.endswith(".json"):
                    continue
                case = json.load(open(os.path.join(rdir, fn)))["case"]
                try:
                    ses.process(case)
                except ViolationFound:
                    ses.end_round()
            ses.stats.extra["regress_replayed"] = len(files)
        # ---- enumerated part -------------------------------------------------
        enum = getattr(mod, "enumerate_cases", None)
        n_enum = 0
        if enum is not None:
            for idx, case in enumerate(enum(tier)):
                if idx % nworkers != k:
                    continue
                n_enum += 1
                try:
                    ses.process(case)
                except ViolationFound:
                    ses.end_round()
        ses.stats.extra["enumerated"] = n_enum
        # ---- generated part --------------------------------------------------
        strat_fn = getattr(mod, "strategy", None)
        n = getattr(mod, "N", {}).get(tier, 0)
        if strat_fn is not None and n > 0:
            import hypothesis
            from hypothesis import HealthCheck, Phase, given, settings
            rounds = 1 if tier == "quick" else 3
            for rnd in range(rounds):
                strat = strat_fn(tier)
                sett = settings(max_examples=n if rnd == 0 else max(n // 3, 1), database=None, deadline=None,
                                derandomize=False, report_multiple_bugs=False,
                                suppress_health_check=list(HealthCheck),
                                phases=[Phase.generate, Phase.shrink], print_blob=False, verbosity=hypothesis.Verbosity.quiet)

                @hypothesis.seed(seed * 1000 + k + 100000 * rnd)
                @sett
                @given(strat)
                def test(case):
                    ses.process(case)

                try:
                    test()
                except BaseException as e:  # noqa: B902
                    if ses.last_fail is None:
                        raise
                    del e
                if not ses.end_round():
                    break
        out = ses.stats.dump()
        out["wall"] = time.time() - t0
        out["shard"] = k
        return ("ok", out)
    except BaseException:  # noqa: B902
        return ("error", traceback.format_exc())


def merge(results):
    m = {"evals": 0, "nontrivial": set(), "labels": collections.Counter(), "outcomes": collections.Counter(),
         "samples": [], "known_hits": collections.Counter(), "known_samples": {}, "undoc": collections.Counter(),
         "undoc_samples": {}, "failures": [], "skipped_after_budget": 0, "inconclusive": 0,
         "extra": collections.Counter(), "shards": []}
    for r in results:
        m["evals"] += r["evals"]
        m["nontrivial"].update(r["nontrivial"])
        m["labels"].update(r["labels"])
        m["outcomes"].update(r["outcomes"])
        m["known_hits"].update(r["known_hits"])
        m["undoc"].update(r["undoc"])
        m["extra"].update(r["extra"])
        for k, v in r["known_samples"].items():
            m["known_samples"].setdefault(k, v)
        for k, v in r["undoc_samples"].items():
            m["undoc_samples"].setdefault(k, v)
        m["failures"].extend(r["failures"])
        m["skipped_after_budget"] += r["skipped_after_budget"]
        m["inconclusive"] += r["inconclusive"]
        m["shards"].append({"shard": r["shard"], "evaluations": r["evals"], "wall_s": round(r["wall"], 1)})
    for r in sorted(results, key=lambda r: r["shard"]):
        for s in r["samples"]:
            if len(m["samples"]) < 3:
                m["samples"].append(s)
    return m


def write_replay(pid, failure, seed, tier):
    d = os.path.join(VERIF, "replays", pid)
    os.makedirs(d, exist_ok=True)
    path = os.path.join(d, digest(failure["case"])[:12] + ".json")
    with open(path, "w") as f:
        json.dump({"property": pid, "seed": seed, "tier": tier, "case": failure["case"], "violation": failure["viol"]},
                  f, indent=1, sort_keys=True, default=str)
    return os.path.relpath(path, VERIF)


def run_check(pid, tier, seed):
    t0 = time.time()
    modname = "pv.props." + pid.lower()
    from pv import env
    mod = importlib.import_module(modname)
    known, fixed = load_known(pid)
    nworkers = getattr(mod, "WORKERS", {"quick": 8, "thorough": 16})[tier]
    nworkers = max(1, min(nworkers, os.cpu_count() or 1))
    budget = getattr(mod, "BUDGET_S", {}).get(tier, QUICK_BUDGET_S if tier == "quick" else THOROUGH_BUDGET_S)
    deadline = time.time() + budget
    args = [(modname, tier, seed, k, nworkers, known, deadline) for k in range(nworkers)]
    if nworkers == 1:
        res = [_worker(args[0])]
    else:
        ctx = mp.get_context("fork")
        with ctx.Pool(nworkers) as pool:
            try:
                res = pool.map_async(_worker, args, chunksize=1).get(timeout=budget * 2 + 900)
            except mp.TimeoutError:
                pool.terminate()
                sys.stderr.write("HARNESS-ERROR: workers did not finish within the watchdog time (inconclusive, not a verdict)\n")
                return 2
    errs = [r[1] for r in res if r[0] != "ok"]
    if errs:
        sys.stderr.write("HARNESS-ERROR: worker failed\n" + errs[0] + "\n")
        return 2
    m = merge([r[1] for r in res])

    # optional extra campaign run by the parent (e.g. the atheris campaign of C09/C14 in the thorough tier)
    extra_cov = {}
    if hasattr(mod, "extra_campaign"):
        ex = mod.extra_campaign(tier, seed) or {}
        extra_cov = ex.get("coverage", {})
        for f in ex.get("failures", []):
            ki = match_known(known, f["viol"].get("sig", {}), f.get("case"))
            if ki is not None:
                m["known_hits"][str(ki)] += 1
                m["known_samples"].setdefault(str(ki), {"case": f["case"], "viol": f["viol"]})
            else:
                m["failures"].append(f)
        m["evals"] += int(ex.get("evaluations", 0))

    # de-duplicate new violations by signature
    new, seen = [], set()
    for f in m["failures"]:
        key = canon(f["viol"].get("sig", {}))
        if key in seen:
            continue
        seen.add(key)
        new.append(f)

    samples = list(m["samples"])
    for ki, s in m["known_samples"].items():
        samples.append({"known_finding": known[int(ki)]["what"], "case": s["case"], "violation": s["viol"]})
    for f in new:
        samples.append({"violation": f["viol"], "case": f["case"]})
    coverage = {
        "evaluations": m["evals"],
        "distinct_nontrivial": len(m["nontrivial"]),
        "rule": getattr(mod, "RULE", ""),
        "samples": samples if samples else [{"note": "no non-trivial case generated"}],
        "classes": dict(sorted(m["labels"].items())),
        "outcomes": dict(m["outcomes"]),
        "known_excluded": {known[int(k)]["what"]: v for k, v in m["known_hits"].items()},
        "undocumented_exceptions": dict(m["undoc"]),
        "inconclusive": m["inconclusive"],
        "skipped_after_budget": m["skipped_after_budget"],
        "shards": m["shards"],
        "exhaustive": bool(getattr(mod, "EXHAUSTIVE", {}).get(tier, False)) and m["skipped_after_budget"] == 0,
        "extra": dict(m["extra"]),
        "source_root": env.SRC,
    }
    if hasattr(mod, "coverage_extra"):
        coverage.update(mod.coverage_extra(tier))
    coverage.update(extra_cov)
    evidence = {
        "property_id": pid, "tier": tier, "seed": seed, "level": getattr(mod, "LEVEL", "exploration"),
        "coverage": coverage,
        "assumptions": getattr(mod, "ASSUMPTIONS", []) + [
            "z3 'unsat' answers are trusted for 'held'; every reported witness is re-evaluated with fractions.Fraction",
            "float coefficients denote the exact rationals Fraction(float)",
        ],
        "wall_s": round(time.time() - t0, 2),
        "violations": len(new),
    }
    os.makedirs(os.path.join(VERIF, "evidence"), exist_ok=True)
    with open(os.path.join(VERIF, "evidence", pid + ".json"), "w") as f:
        json.dump(evidence, f, indent=1, sort_keys=True, default=str)

    for ki in sorted(m["known_hits"], key=int):
        print("KNOWN-FINDING: property=%s %s (%d generated cases hit it; excluded from the search)"
              % (pid, known[int(ki)]["what"], m["known_hits"][ki]))
    for f in new:
        path = write_replay(pid, f, seed, tier)
        print("VIOLATION property=%s replay=%s" % (pid, path))
        print("  what: %s" % f["viol"].get("what"))
    print("%s %s seed=%d: %d evaluations, %d distinct non-trivial, %d new violation(s), %.1fs"
          % (pid, tier, seed, m["evals"], len(m["nontrivial"]), len(new), time.time() - t0))
    if m["inconclusive"] > max(20, m["evals"] // 5):
        sys.stderr.write("HARNESS-ERROR: too many inconclusive oracle answers (%d)\n" % m["inconclusive"])
        return 2
    return 1 if new else 0


def run_replay(pid, path):
    from pv import env  # noqa: F401
    mod = importlib.import_module("pv.props." + pid.lower())
    known, _ = load_known(pid)
    data = json.load(open(path))
    ses = Session(mod, "quick", known, time.time() + 3600)
    out = ses.judge(data["case"])
    viol = out.get("viol")
    if viol is None:
        print("replay %s: no violation (property holds on this case)" % path)
        return 0
    ki = match_known(known, viol.get("sig", {}), data["case"])
    if ki is not None:
        print("KNOWN-FINDING: property=%s %s" % (pid, known[ki]["what"]))
        return 0
    print("VIOLATION property=%s replay=%s" % (pid, path))
    print("  what: %s" % viol.get("what"))
    print("  detail: %s" % json.dumps(viol.get("detail"), default=str)[:2000])
    return 1


def main(argv):
    import argparse
    ap = argparse.ArgumentParser()
    ap.add_argument("property")
    ap.add_argument("--tier", default=os.environ.get("VERIF_TIER", "quick"), choices=["quick", "thorough"])
    ap.add_argument("--replay")
    a = ap.parse_args(argv)
    seed = int(os.environ.get("VERIF_SEED", "1") or "1")
    pid = a.property.upper()
    try:
        if a.replay:
            return run_replay(pid, a.replay)
        return run_check(pid, a.tier, seed)
    except SystemExit:
        raise
    except BaseException:  # noqa: B902
        sys.stderr.write("HARNESS-ERROR:\n" + traceback.format_exc())
        return 2
