"""Reference reader for constraint strings, written from docs/polyhedral-term-syntax.md (not from grammar.py).

It reads a *superset* of the documented grammar into the expression-tree form used by pv.props.c09 (so the same
evaluator / exact comparison applies).  Strings it cannot read are reported as None (never judged).
"""
import re

TOKEN = re.compile(r"\s*(?:(?P<num>(?:\d+\.?\d*|\.\d+)(?:[eE][+-]?\d+)?)|(?P<var>[A-Za-z][A-Za-z0-9_]*)|(?P<op><=|>=|==|=|[-+*/()|]))")


class Unreadable(Exception):
    pass


def tokenize(s):
    out, pos = [], 0
    s = s.rstrip()
    while pos < len(s):
        m = TOKEN.match(s, pos)
        if not m or m.end() == pos:
            raise Unreadable("bad character at %d" % pos)
        if m.group("num") is not None:
            out.append(("num", m.group("num")))
        elif m.group("var") is not None:
            out.append(("var", m.group("var")))
        else:
            out.append(("op", m.group("op")))
        pos = m.end()
    return out


class Reader:
    def __init__(self, toks):
        self.t, self.i = toks, 0

    def peek(self, k=0):
        return self.t[self.i + k] if self.i + k < len(self.t) else ("end", "")

    def take(self):
        tok = self.peek()
        self.i += 1
        return tok

    def accept(self, val):
        if self.peek() == ("op", val):
            self.i += 1
            return True
        return False

    # ---- constant arithmetic inside parentheses: + - * / with the usual precedence, left associative
    def arith(self):
        v = self.arith_term()
        while self.peek() in (("op", "+"), ("op", "-")):
            op = self.take()[1]
            w = self.arith_term()
            v = v + w if op == "+" else v - w
        return v

    def arith_term(self):
        v = self.arith_atom()
        while self.peek() in (("op", "*"), ("op", "/")):
            op = self.take()[1]
            w = self.arith_atom()
            if op == "/":
                if w == 0:
                    raise Unreadable("division by zero")
                v = v / w
            else:
                v = v * w
        return v

    def arith_atom(self):
        k, v = self.take()
        if k == "num":
            return float(v)
        if (k, v) == ("op", "("):
            r = self.arith()
            if not self.accept(")"):
                raise Unreadable(") expected")
            return r
        raise Unreadable("number expected")

    def try_paren_constant(self):
        """'(' arith ')' with no variables inside -> float, else None (position restored)"""
        if self.peek() != ("op", "("):
            return None
        depth, j = 0, self.i
        while j < len(self.t):
            k, v = self.t[j]
            if k == "var" or (k, v) == ("op", "|") or (k == "op" and v in ("<=", ">=", "=", "==")):
                return None
            if (k, v) == ("op", "("):
                depth += 1
            elif (k, v) == ("op", ")"):
                depth -= 1
                if depth == 0:
                    break
            j += 1
        else:
            return None
        save = self.i
        try:
            self.take()
            r = self.arith()
            if not self.accept(")"):
                raise Unreadable(")")
            return r
        except Unreadable:
            self.i = save
            raise

    def number(self):
        if self.peek()[0] == "num":
            return float(self.take()[1])
        return self.try_paren_constant()

    def side(self, closers):
        items = []
        first = True
        while True:
            sign = 1
            if self.peek() in (("op", "+"), ("op", "-")):
                sign = -1 if self.take()[1] == "-" else 1
            elif not first:
                break
            items.append(self.item(sign, "|" in closers))
            first = False
            if self.peek() not in (("op", "+"), ("op", "-")):
                break
        return items

    def item(self, sign, in_abs=False):
        c = self.number()
        if c is not None:
            if self.peek() == ("op", "*") and (self.peek(1)[0] == "var" or self.peek(1) in (("op", "("), ("op", "|"))):
                self.take()
            k, v = self.peek()
            if k == "var":
                self.take()
                return {"s": sign, "k": "var", "c": {"val": c}, "v": v}
            if (k, v) == ("op", "("):
                self.take()
                inner = self.side([")"])
                if not self.accept(")"):
                    raise Unreadable(") expected")
                return {"s": sign, "k": "pgrp", "c": {"val": c}, "in": inner}
            if (k, v) == ("op", "|") and not in_abs:
                self.take()
                inner = self.side(["|"])
                if not self.accept("|"):
                    raise Unreadable("| expected")
                return {"s": sign, "k": "abs", "c": {"val": c}, "in": inner}
            return {"s": sign, "k": "num", "n": {"val": c}}
        k, v = self.peek()
        if k == "var":
            self.take()
            return {"s": sign, "k": "var", "c": None, "v": v}
        if (k, v) == ("op", "("):
            self.take()
            inner = self.side([")"])
            if not self.accept(")"):
                raise Unreadable(") expected")
            return {"s": sign, "k": "pgrp", "c": None, "in": inner}
        if (k, v) == ("op", "|") and not in_abs:
            self.take()
            inner = self.side(["|"])
            if not self.accept("|"):
                raise Unreadable("| expected")
            return {"s": sign, "k": "abs", "c": None, "in": inner}
        raise Unreadable("item expected, got %r" % (v,))


def read(s):
    """-> {"rel": "<="|">="|"=", "sides": [...]} or None if this reader cannot read the string"""
    try:
        toks = tokenize(s)
        if not toks:
            return None
        r = Reader(toks)
        sides = [r.side([])]
        rel = None
        while r.peek()[0] == "op" and r.peek()[1] in ("<=", ">=", "=", "=="):
            op = r.take()[1]
            op = "=" if op == "==" else op
            if rel is None:
                rel = op
            elif rel != op or op == "=":
                return None
            sides.append(r.side([]))
        if r.peek()[0] != "end" or rel is None or len(sides) < 2:
            return None
        return {"rel": rel, "sides": sides}
    except (Unreadable, ValueError, OverflowError, ZeroDivisionError, RecursionError):
        return None


def max_number(tree):
    m = 0.0

    def walk(items):
        nonlocal m
        for it in items:
            if it.get("c"):
                m = max(m, abs(it["c"]["val"]))
            if it["k"] == "num":
                m = max(m, abs(it["n"]["val"]))
            if "in" in it:
                walk(it["in"])
    for s in tree["sides"]:
        walk(s)
    return m


def variables(tree):
    vs = set()

    def walk(items):
        for it in items:
            if it["k"] == "var":
                vs.add(it["v"])
            if "in" in it:
                walk(it["in"])
    for s in tree["sides"]:
        walk(s)
    return sorted(vs)
