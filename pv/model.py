"""Reference models written from the property text (not from the code)."""


def uniq(seq):
    return list(dict.fromkeys(seq))


def well_formed(ins, outs, avars, gvars):
    """None if well formed, else the reason."""
    if len(ins) != len(set(ins)) or len(outs) != len(set(outs)):
        return "duplicate"
    if set(ins) & set(outs):
        return "input-and-output"
    if set(avars) - set(ins):
        return "assumption-on-non-input"
    if set(gvars) - set(ins) - set(outs):
        return "guarantee-on-unknown-variable"
    return None


def compose_iface(i1, o1, a1vars, i2, o2, a2vars, keep):
    """('reject', reason) or ('ok', inputs:set, outputs:set)"""
    if set(o1) & set(o2):
        return ("reject", "shared-outputs")
    if set(keep) - set(o1) - set(o2):
        return ("reject", "keep-non-output")
    fb12 = set(o1) & set(i2)
    fb21 = set(o2) & set(i1)
    if fb12 and fb21 and ((set(o2) & set(a1vars)) or (set(o1) & set(a2vars))):
        return ("reject", "feedback-onto-assumed-input")
    internal = fb12 | fb21
    inputs = (set(i1) | set(i2)) - internal
    outputs = ((set(o1) | set(o2)) - internal) | set(keep)
    return ("ok", inputs, outputs)


def quotient_iface(it, ot, idv, odv, addl):
    """top = dividend (it, ot), divisor (idv, odv)"""
    if (set(ot) - set(odv)) & set(idv):
        return ("reject", "quotient-output-read-by-divisor")
    if set(addl) - set(odv) - set(it):
        return ("reject", "illegal-additional-input")
    inputs = (set(it) - set(idv)) | (set(odv) - set(ot)) | set(addl)
    outputs = (set(ot) - set(odv)) | (set(idv) - set(it))
    return ("ok", inputs, outputs)


def merge_iface(i1, o1, i2, o2):
    ins, outs = set(i1) | set(i2), set(o1) | set(o2)
    if ins & outs:
        return ("reject", "input-and-output")
    return ("ok", ins, outs)


def rename_iface(ins, outs, s, t):
    if s == t or (s not in ins and s not in outs):
        return ("ok", set(ins), set(outs))
    if s in ins:
        if t in outs:
            return ("reject", "input-and-output")
        return ("ok", (set(ins) - {s}) | {t}, set(outs))
    if t in ins:
        return ("reject", "input-and-output")
    return ("ok", set(ins), (set(outs) - {s}) | {t})
