"""Runs the atheris campaign(s) of fuzz/parse_target.py in a scratch directory and collects statistics / violations."""
import glob
import json
import os
import shutil
import subprocess
import tempfile
import time

VERIF = os.path.dirname(os.path.dirname(os.path.abspath(__file__)))


def campaign(seed, runs, max_time_s, with_corpus=True):
    work = tempfile.mkdtemp(prefix="pv_fuzz_")
    try:
        corpus, out = os.path.join(work, "corpus"), os.path.join(work, "out")
        os.makedirs(corpus)
        os.makedirs(out)
        if with_corpus:
            for f in glob.glob(os.path.join(VERIF, "corpus", "parse", "*")):
                shutil.copy(f, corpus)
        env = dict(os.environ, PV_FUZZ_OUT=out, PYTHONHASHSEED="0")
        cmd = [os.path.join(VERIF, "fuzz", "parse_target.py"), "-runs=%d" % runs, "-seed=%d" % seed, "-only_ascii=1", "-max_len=120",
               "-max_total_time=%d" % max_time_s, "-timeout=60", "-dict=" + os.path.join(VERIF, "fuzz", "parse.dict"), "-artifact_prefix=" + out + "/", corpus]
        t0 = time.time()
        try:
            p = subprocess.run(cmd, cwd=work, env=env, stdout=subprocess.PIPE, stderr=subprocess.STDOUT, text=True, timeout=max_time_s + 300)
            tail = p.stdout[-400:]
            rc = p.returncode
        except subprocess.TimeoutExpired:
            tail, rc = "campaign timed out (inconclusive)", -1
        stats, samples = {}, {}
        for f in glob.glob(os.path.join(out, "stats-*.json")):
            d = json.load(open(f))
            for k, v in d["stats"].items():
                stats[k] = stats.get(k, 0) + v
            samples.update(d["samples"])
        failures = []
        for f in glob.glob(os.path.join(out, "violation-*.json")):
            d = json.load(open(f))
            failures.append({"case": d["case"], "viol": d["viol"]})
        if rc not in (0, -1) and not failures and "ERROR: libFuzzer" in tail:
            # a crash/timeout artefact without a recorded violation: report as inconclusive, keep the tail for the evidence
            stats["libfuzzer_abnormal_exit"] = stats.get("libfuzzer_abnormal_exit", 0) + 1
        return {"stats": stats, "samples": samples, "failures": failures, "wall_s": round(time.time() - t0, 1), "exit": rc,
                "corpus": "tests+docs strings" if with_corpus else "empty", "tail": tail[-200:]}
    finally:
        shutil.rmtree(work, ignore_errors=True)
