"""Pristine fork server for C13: a process that has only imported pacti (from the pinned source root) and the
operation interpreter; every request is executed in a freshly forked child, so no earlier request can influence it.
Protocol: one JSON object per line on stdin -> one JSON object per line on stdout."""
import json
import os
import sys


def serve():
    from pv import env  # noqa: F401
    from pv.props import c13
    out = sys.stdout
    for line in sys.stdin:
        line = line.strip()
        if not line:
            continue
        r, w = os.pipe()
        pid = os.fork()
        if pid == 0:
            os.close(r)
            try:
                req = json.loads(line)
                res = c13.execute_on_data(req["op"], req["operands"])
            except BaseException as e:  # noqa: B902
                res = {"harness_error": "%s: %s" % (type(e).__name__, e)}
            with os.fdopen(w, "w") as f:
                f.write(json.dumps(res))
            os._exit(0)
        os.close(w)
        with os.fdopen(r) as f:
            data = f.read()
        os.waitpid(pid, 0)
        out.write((data or json.dumps({"harness_error": "child died"})) + "\n")
        out.flush()


class Client:
    def __init__(self):
        import subprocess
        here = os.path.dirname(os.path.dirname(os.path.abspath(__file__)))
        envv = dict(os.environ, PYTHONPATH=here + os.pathsep + os.environ.get("PYTHONPATH", ""), PYTHONHASHSEED="0")
        self.p = subprocess.Popen([sys.executable, "-c", "from pv.forksrv import serve; serve()"], stdin=subprocess.PIPE,
                                  stdout=subprocess.PIPE, text=True, env=envv, cwd=here)

    def run(self, op, operands):
        self.p.stdin.write(json.dumps({"op": op, "operands": operands}) + "\n")
        self.p.stdin.flush()
        line = self.p.stdout.readline()
        if not line:
            raise RuntimeError("fork server died")
        return json.loads(line)

    def close(self):
        try:
            self.p.stdin.close()
            self.p.wait(timeout=5)
        except Exception:  # noqa: B902
            self.p.kill()
