"""Exact rational oracle for linear implications (z3 as decision procedure, every
witness re-checked with fractions.Fraction so that no VIOLATION rests on z3).

Formulas are small python tuples so that the z3 encoding and the Fraction
evaluator are driven by the same object:
    ("le", {name: Fraction}, Fraction)   sum a_i v_i <= c
    ("gt", {name: Fraction}, Fraction)   sum a_i v_i >  c
    ("and", [f, ...])   ("or", [f, ...])
Terms are plain data [coeffs: {name: float}, const: float] (see env.py).
"""
from fractions import Fraction as F

import z3

BOX = 1000
REL = F(1, 10000)       # 1e-4
NEG_SLACK = F(1, 10 ** 7)  # 1e-7
Z3_TIMEOUT_MS = 20000


class Inconclusive(Exception):
    pass


def fr(x):
    return x if isinstance(x, F) else F(x)


def le(term, slack=0):
    """term holds, its constant enlarged by `slack`."""
    return ("le", {k: fr(v) for k, v in term[0].items() if v != 0}, fr(term[1]) + fr(slack))


def gt(term, margin=0):
    return ("gt", {k: fr(v) for k, v in term[0].items() if v != 0}, fr(term[1]) + fr(margin))


def tol(term, rel=REL):
    return rel * (1 + abs(fr(term[1])))


def conj(terms, slack=0):
    return ("and", [le(t, slack) for t in terms])


def neg_conj(terms, slack=0):
    """not (all terms hold with slack)"""
    return ("or", [gt(t, slack) for t in terms])


def implies(a_terms, g_terms, a_slack=NEG_SLACK):
    """(A enlarged by a_slack) => G   -- a component honouring its contract."""
    return ("or", [neg_conj(a_terms, a_slack), conj(g_terms)])


def AND(*fs):
    return ("and", list(fs))


def OR(*fs):
    return ("or", list(fs))


_zvars = {}


def zv(name):
    v = _zvars.get(name)
    if v is None:
        v = _zvars[name] = z3.Real(name)
    return v


def zq(x):
    x = fr(x)
    return z3.RealVal(str(x.numerator) + "/" + str(x.denominator)) if x.denominator != 1 else z3.RealVal(str(x.numerator))


def zlin(coeffs):
    e = None
    for k in sorted(coeffs):
        t = zq(coeffs[k]) * zv(k)
        e = t if e is None else e + t
    return e if e is not None else z3.RealVal(0)


def to_z3(f):
    k = f[0]
    if k == "le":
        return zlin(f[1]) <= zq(f[2])
    if k == "gt":
        return zlin(f[1]) > zq(f[2])
    if k == "and":
        return z3.And([to_z3(g) for g in f[1]]) if f[1] else z3.BoolVal(True)
    if k == "or":
        return z3.Or([to_z3(g) for g in f[1]]) if f[1] else z3.BoolVal(False)
    raise ValueError(k)


def ev(f, pt):
    k = f[0]
    if k == "le":
        return sum((a * pt.get(n, 0) for n, a in f[1].items()), F(0)) <= f[2]
    if k == "gt":
        return sum((a * pt.get(n, 0) for n, a in f[1].items()), F(0)) > f[2]
    if k == "and":
        return all(ev(g, pt) for g in f[1])
    if k == "or":
        return any(ev(g, pt) for g in f[1])
    raise ValueError(k)


def names_of(f, acc=None):
    acc = set() if acc is None else acc
    if f[0] in ("le", "gt"):
        acc.update(f[1].keys())
    else:
        for g in f[1]:
            names_of(g, acc)
    return acc


def _num(v):
    if z3.is_int_value(v):
        return F(v.as_long())
    if z3.is_rational_value(v):
        return F(v.numerator_as_long(), v.denominator_as_long())
    raise Inconclusive("non-rational value %s" % v)


def _val(m, name):
    return _num(m.eval(zv(name), model_completion=True))


QUERIES = [0]


def solve(formulas, names=None, box=BOX):
    """A point (dict name->Fraction) satisfying all formulas (inside the box if box), or None.
    The point is re-checked with Fractions; disagreement or `unknown` raises Inconclusive."""
    QUERIES[0] += 1
    ns = set(names or ())
    for f in formulas:
        names_of(f, ns)
    s = z3.Solver()
    s.set("timeout", Z3_TIMEOUT_MS)
    for f in formulas:
        s.add(to_z3(f))
    if box is not None:
        for n in ns:
            s.add(zv(n) <= box, zv(n) >= -box)
    r = s.check()
    if r == z3.unsat:
        return None
    if r != z3.sat:
        raise Inconclusive("z3 answered %s" % r)
    m = s.model()
    pt = {n: _val(m, n) for n in sorted(ns)}
    ok = all(ev(f, pt) for f in formulas) and (box is None or all(abs(v) <= box for v in pt.values()))
    if not ok:
        raise Inconclusive("z3 model failed the Fraction re-check")
    return pt


def pt_json(pt):
    return {k: str(v) for k, v in pt.items()}


def find_violation(hyps, concl_terms, names=None, rel=REL, box=BOX, margin=None):
    """First conclusion term a.v <= c for which a point (in the box) satisfies all `hyps`
    and has a.v > c + rel*(1+|c|).  Returns None or a JSON-able description."""
    for idx, t in enumerate(concl_terms):
        mg = tol(t, rel) if margin is None else fr(margin)
        pt = solve(list(hyps) + [gt(t, mg)], names, box)
        if pt is not None:
            lhs = sum((fr(a) * pt.get(n, 0) for n, a in t[0].items()), F(0))
            return {"term_index": idx, "term": t, "point": pt_json(pt), "lhs": str(lhs), "lhs_float": float(lhs),
                    "bound": float(fr(t[1])), "tolerance": float(mg)}
    return None


def implied(hyps, term, names=None, margin=0, box=None):
    """True iff hyps => a.v <= c + margin (over all reals unless box)."""
    return solve(list(hyps) + [gt(term, margin)], names, box) is None


def feasible(formulas, names=None, box=None):
    return solve(formulas, names, box) is not None


def equivalent(terms1, terms2, names=None, extra=(), rel=REL, box=BOX):
    """Both directions, term-wise, within the tolerance.  None or description."""
    b = find_violation([conj(terms1)] + list(extra), terms2, names, rel, box)
    if b:
        b["direction"] = "first=>second"
        return b
    b = find_violation([conj(terms2)] + list(extra), terms1, names, rel, box)
    if b:
        b["direction"] = "second=>first"
        return b
    return None


def optimum(formulas, objective, maximize=True):
    """Exact LP optimum of sum objective[n]*n over the conjunction of `formulas` (le atoms only).
    Returns ("infeasible",None) | ("unbounded",None) | ("value", Fraction)."""
    QUERIES[0] += 1
    if not feasible(formulas):
        return "infeasible", None
    o = z3.Optimize()
    o.set("timeout", Z3_TIMEOUT_MS)
    for f in formulas:
        o.add(to_z3(f))
    e = zlin({k: fr(v) for k, v in objective.items()})
    h = o.maximize(e) if maximize else o.minimize(e)
    r = o.check()
    if r != z3.sat:
        raise Inconclusive("z3 optimize answered %s" % r)
    v = o.upper(h) if maximize else o.lower(h)
    s = str(v)
    if "oo" in s:
        return "unbounded", None
    if "epsilon" in s:
        raise Inconclusive("strict optimum")
    return "value", _num(v)


def term_lhs(t, pt):
    return sum((fr(a) * fr(pt.get(n, 0)) for n, a in t[0].items()), F(0))


def holds_exact(terms, pt):
    return all(term_lhs(t, pt) <= fr(t[1]) for t in terms)
