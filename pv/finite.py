"""A finite-domain constraint theory that implements pacti's abstract Term / TermList.

Terms are arbitrary (possibly non-convex) predicates over variables with domain {0,..,D-1},
given extensionally.  The TermList primitives are *nondeterministic within their documented
contracts*: every choice is read from a tape of integers that is part of the generated case
(so Hypothesis shrinks it and a replay re-feeds the same outcomes):

  elim_vars_by_refining  -> per term: weakest sufficient condition (forall-elimination), a random
                            strengthening, the term left untouched (leftover), or ValueError
  elim_vars_by_relaxing  -> per term: strongest necessary condition (exists-elimination), a random
                            weakening, the term dropped or handed back untouched (leftover); or ValueError
  simplify               -> any context-equivalent sub-list, or ValueError
  refines                -> True only for real containment; may answer False at will

In mode "exact" no primitive ever fails and eliminations are exact: used for the
interface enumeration of C06 (a refusal can then never be blamed on elimination).
The stub asserts its own contract by truth table before returning (StubBug = harness error).
"""
import itertools

from pv import env

Term, TermList, Var = env.Term, env.TermList, env.Var


class StubBug(Exception):
    pass


class World:
    """global configuration of the stub for the case being run"""
    names = []
    dom = (0, 1)
    tape = []
    pos = 0
    mode = "nondet"
    log = []
    eliminated = 0

    @classmethod
    def reset(cls, names, tape, mode="nondet", dom=(0, 1)):
        cls.names, cls.tape, cls.pos, cls.mode, cls.dom, cls.log, cls.eliminated = list(names), list(tape), 0, mode, tuple(dom), [], 0

    @classmethod
    def choice(cls, tag, n):
        if cls.mode == "exact":
            return 0
        v = cls.tape[cls.pos] % n if cls.pos < len(cls.tape) else 0
        cls.pos += 1
        cls.log.append((tag, v))
        return v


def valuations(names=None):
    names = World.names if names is None else names
    for tup in itertools.product(World.dom, repeat=len(names)):
        yield dict(zip(names, tup))


class FTerm(Term):
    def __init__(self, support, allowed):
        self.support = tuple(support)
        self.allowed = frozenset(tuple(a) for a in allowed)

    @property
    def vars(self):  # noqa: A003
        return [Var(v) for v in self.support]

    def contains_var(self, v):
        return v.name in self.support

    def __eq__(self, o):
        return isinstance(o, FTerm) and self.support == o.support and self.allowed == o.allowed

    def __hash__(self):
        # deliberately coarse (legal: equal terms still hash alike): generic code must never take equal hashes for equal terms
        return hash(self.support)

    def __str__(self):
        return "P%s%s" % (list(self.support), sorted(self.allowed))

    __repr__ = __str__

    def copy(self):
        return FTerm(self.support, self.allowed)

    def holds(self, val):
        return tuple(val[v] for v in self.support) in self.allowed

    def rename_variable(self, source_var, target_var):
        s, t = source_var.name, target_var.name
        if s not in self.support:
            return self.copy()
        if t not in self.support:
            return FTerm([t if v == s else v for v in self.support], self.allowed)
        i, j = self.support.index(s), self.support.index(t)
        sup = [v for v in self.support if v != s]
        allowed = {tuple(x for k, x in enumerate(a) if k != i) for a in self.allowed if a[i] == a[j]}
        return FTerm(sup, allowed)


def sem(terms, val):
    return all(t.holds(val) for t in terms)


class FTL(TermList):
    def __hash__(self):
        return hash(tuple(self.terms))

    def contains_behavior(self, behavior):
        return sem(self.terms, {k.name: v for k, v in behavior.items()})

    def is_empty(self):
        return not any(sem(self.terms, v) for v in valuations())

    def refines(self, other):
        real = all(sem(other.terms, v) for v in valuations() if sem(self.terms, v))
        if not real:
            return False
        return World.choice("refines", 3) != 2     # may answer False at will

    def simplify(self, context=None):
        ctx = context.terms if context else []
        if World.choice("simplify-raise", 7) == 6:
            raise ValueError("stub: simplify declined")
        out = [t for t in self.terms if t not in ctx] if World.mode != "exact" else list(self.terms)
        if World.mode != "exact":
            for t in list(out):
                if World.choice("simplify-drop", 2) == 0:
                    rest = [u for u in out if u is not t]
                    if all(t.holds(v) for v in valuations() if sem(ctx, v) and sem(rest, v)):
                        out = rest
        for v in valuations():
            if sem(ctx, v) and sem(out, v) != sem(self.terms, v):
                raise StubBug("simplify broke its contract")
        return FTL([t.copy() for t in out])

    def _elim(self, context, vars_to_elim, refine):
        if World.choice("elim-raise", 8) == 7:
            raise ValueError("stub: elimination declined")
        names = [v.name for v in vars_to_elim]
        out = []
        for i, t in enumerate(self.terms):
            if not set(t.support) & set(names):
                out.append(t.copy())
                continue
            mode = ("exact", "exact", "weak", "leftover")[World.choice("elim-mode", 4)]
            helpers = list(context.terms) + out + [u for j, u in enumerate(self.terms) if j > i]
            keep = [v for v in t.support if v not in names]
            extra = []
            if World.mode != "exact":
                extra = [v for v in World.names if v not in names and v not in keep and World.choice("extra-support", 3) == 2]
            sup = keep + extra
            others = [v for v in World.names if v not in sup]
            allowed = set()
            for sv in itertools.product(World.dom, repeat=len(sup)):
                base = dict(zip(sup, sv))
                ext = [dict(base, **dict(zip(others, ov))) for ov in itertools.product(World.dom, repeat=len(others))]
                if refine:
                    ok = all(t.holds(v) for v in ext if sem(helpers, v))
                    if mode == "weak" and ok:
                        ok = World.choice("strengthen", 2) == 0
                else:
                    ok = any(t.holds(v) and sem(helpers, v) for v in ext)
                    if mode == "weak" and not ok:
                        ok = World.choice("weaken", 2) == 1
                if ok:
                    allowed.add(sv)
            if mode == "leftover":
                # refine: the term is left untouched; relax: it is either dropped or handed back untouched (the generic code
                # anticipates leftovers after relaxation and removes them itself)
                if refine or World.choice("relax-leftover-kept", 2) == 1:
                    out.append(t.copy())
                continue
            World.eliminated += 1
            out.append(FTerm(sup, allowed))
        for v in valuations():
            if sem(context.terms, v):
                if refine and sem(out, v) and not sem(self.terms, v):
                    raise StubBug("refine-elimination broke its contract")
                if not refine and sem(self.terms, v) and not sem(out, v):
                    raise StubBug("relax-elimination broke its contract")
        return FTL(out), []

    def elim_vars_by_refining(self, context, vars_to_elim, simplify=True, tactics_order=None):
        return self._elim(context, vars_to_elim, True)

    def elim_vars_by_relaxing(self, context, vars_to_elim, simplify=True, tactics_order=None):
        return self._elim(context, vars_to_elim, False)


def term_from(support, mask):
    """term over `support` whose allowed set is given by the bits of `mask` (bit k = k-th tuple in product order)"""
    tuples = list(itertools.product(World.dom, repeat=len(support)))
    return FTerm(support, [tp for k, tp in enumerate(tuples) if (mask >> k) & 1])


def contract_from(d, simplify=False):
    a = FTL([term_from(s, m) for s, m in d["a"]])
    g = FTL([term_from(s, m) for s, m in d["g"]])
    return env.IoContract(a, g, [Var(v) for v in d["i"]], [Var(v) for v in d["o"]], simplify=simplify)
