"""Hypothesis strategies producing plain-data cases (JSON-able).

Sound first: only inputs the code documents/accepts (every term mentions >= 1 variable
unless a property asks otherwise); construction over rejection: term constants are
derived from a hidden witness point so jointly-satisfiable lists are satisfiable by
construction.
"""
from hypothesis import strategies as st

NAMES = ["a", "b", "c", "x", "y", "z"]
INT_COEFS = [1, -1, 1, -1, 1, -1, 2, -2, 2, -2, 1, -1, 2, -2, 3, -3, 3, -3, 4, -4, 5, -5]
DYADIC_COEFS = [0.5, -0.5, 1.5, -1.5, 0.25, -0.25, 0.75, -0.75, 2.5, -2.5]
SLACKS = [0, 0, 0, 1, 1, 2, 5]


def coef_s(dyadic=True):
    if dyadic:
        return st.one_of(st.sampled_from(INT_COEFS), st.sampled_from(INT_COEFS), st.sampled_from(DYADIC_COEFS))
    return st.sampled_from(INT_COEFS)


@st.composite
def witness_s(draw, names, lo=-4, hi=4):
    return {n: draw(st.integers(lo, hi)) for n in names}


def dot(coeffs, w):
    return sum(a * w[n] for n, a in coeffs.items())


@st.composite
def term_s(draw, pool, w=None, kmax=3, slacks=SLACKS, dyadic=True, must=None, const_range=5):
    """One term over `pool` (list of names).  With a witness w the term holds at w."""
    k = draw(st.integers(1, min(kmax, len(pool))))
    vs = draw(st.lists(st.sampled_from(pool), min_size=k, max_size=k, unique=True))
    if must is not None and must not in vs:
        vs[0] = must
    coeffs = {v: draw(coef_s(dyadic)) for v in vs}
    if w is None:
        c = draw(st.integers(-const_range, const_range))
    else:
        c = dot(coeffs, w) + draw(st.sampled_from(slacks))
    return [coeffs, float(c)]


@st.composite
def termlist_s(draw, pool, w=None, nmin=0, nmax=3, **kw):
    if not pool:
        return []
    n = draw(st.integers(nmin, nmax))
    return [draw(term_s(pool, w, **kw)) for _ in range(n)]


def tactic_ids():
    from pv import env
    return sorted(env.PolyhedralTermList.TACTICS.keys())


@st.composite
def order_s(draw, allow_none=True):
    ids = tactic_ids()
    real = [i for i in ids if i != 6] or ids
    kind = draw(st.sampled_from(["default", "single", "single", "single", "perm", "subset", "reversed", "default", "single", "perm", "empty"]))
    if kind == "empty":
        return []        # a legal order: no tactic at all (refinement then has to fail, relaxation drops what it cannot transform)
    if kind == "default":
        return None if allow_none else list(real)
    if kind == "single":
        return [draw(st.sampled_from(real))]
    if kind == "reversed":
        return list(reversed(real))
    if kind == "perm":
        return list(draw(st.permutations(real)))
    sub = draw(st.lists(st.sampled_from(ids), min_size=1, max_size=len(ids), unique=True))
    return sub


# --------------------------------------------------------------------------
# interface wirings of two contracts

WIRINGS = ["independent", "cascade12", "cascade21", "shared_in", "feedback", "mixed"]
WIRINGS_W = ["cascade12", "cascade21", "mixed", "independent", "cascade12", "cascade21", "shared_in", "feedback", "mixed", "cascade3"]


@st.composite
def wiring_s(draw, kinds=WIRINGS):
    w = draw(st.sampled_from(kinds))
    n = lambda lst, lo=1: lst[:draw(st.integers(lo, len(lst)))]  # noqa: E731
    if w == "cascade3":
        # three interconnection variables: terms over all of them need multi-variable eliminations
        i1, o1 = n(["i1", "j1"]), ["m", "n", "k"] + n(["o1"], 0)
        i2, o2 = ["m", "n", "k"] + n(["i2"], 0), n(["o2", "p2"])
        if draw(st.booleans()):
            i1, o1, i2, o2 = i2, o2, i1, o1
        return {"kind": "cascade3", "i1": i1, "o1": o1, "i2": i2, "o2": o2}
    if w == "independent":
        i1, o1, i2, o2 = n(["i1", "j1"]), n(["o1", "p1"]), n(["i2", "j2"]), n(["o2"])
    elif w == "cascade12":
        i1, o1, i2, o2 = n(["i1", "j1"]), n(["m", "n", "o1"]), n(["m", "n", "i2"]), n(["o2", "p2"])
    elif w == "cascade21":
        i2, o2, i1, o1 = n(["i1", "j1"]), n(["m", "n", "o1"]), n(["m", "n", "i2"]), n(["o2", "p2"])
    elif w == "shared_in":
        i1, o1, i2, o2 = n(["s", "i1"]), n(["o1", "p1"]), n(["s", "i2"]), n(["o2"])
    elif w == "feedback":
        i1, o1, i2, o2 = n(["f2", "i1"]), n(["f1", "o1"]), n(["f1", "i2"]), n(["f2", "o2"])
    else:  # mixed: shared input + cascade
        i1, o1 = n(["s", "i1"], 1), n(["m", "o1"])
        i2, o2 = n(["s", "m", "i2"], 2), n(["o2", "p2"])
    return {"kind": w, "i1": i1, "o1": o1, "i2": i2, "o2": o2}


@st.composite
def structured_contract_s(draw, ins, outs, w, assume_on=None, dyadic=True):
    """Outputs bounded from both sides (or one side) by affine functions of the inputs;
    box-like assumptions on some inputs.  All terms hold at the witness w."""
    a, g = [], []
    for v in (ins if assume_on is None else assume_on):
        r = draw(st.integers(0, 3))
        if r in (1, 3):
            a.append([{v: 1.0}, float(w[v] + draw(st.sampled_from([0, 1, 2, 3])))])
        if r in (2, 3):
            a.append([{v: -1.0}, float(-w[v] + draw(st.sampled_from([0, 1, 2, 3])))])
    for o in outs:
        k = draw(st.integers(0, min(2, len(ins))))
        srcs = draw(st.lists(st.sampled_from(ins), min_size=k, max_size=k, unique=True)) if ins and k else []
        lin = {s: draw(coef_s(dyadic)) for s in srcs}
        oc = draw(st.sampled_from([1, 1, 1, 2, 0.5]))
        sides = draw(st.sampled_from(["both", "both", "upper", "lower"]))
        up = dict({o: oc}, **{s: -c for s, c in lin.items()})
        lo = {k2: -v for k2, v in up.items()}
        if sides in ("both", "upper"):
            g.append([up, float(dot(up, w) + draw(st.sampled_from([0, 0, 1, 2])))])
        if sides in ("both", "lower"):
            g.append([lo, float(dot(lo, w) + draw(st.sampled_from([0, 0, 1, 2])))])
    return {"a": a, "g": g, "i": list(ins), "o": list(outs)}


@st.composite
def wild_contract_s(draw, ins, outs, w, assume_on=None, dyadic=True, na=(0, 2), ng=(1, 3)):
    apool = ins if assume_on is None else assume_on
    a = draw(termlist_s(apool, w, na[0], na[1], dyadic=dyadic)) if apool else []
    g = draw(termlist_s(ins + outs, w, ng[0], ng[1], dyadic=dyadic))
    return {"a": a, "g": g, "i": list(ins), "o": list(outs)}


@st.composite
def coupled_contract_s(draw, ins, outs, w, assume_on=None, dyadic=True):
    """Guarantees that couple the outputs with each other (ratio-like rows listed before plain bounds) and terms that
    mention several interface variables at once: exercises multi-variable eliminations (Kaykobad systems, LP contexts)."""
    base = draw(structured_contract_s(ins, outs, w, assume_on, dyadic))
    g = []
    allv = list(ins) + list(outs)
    for a in outs:
        for b in outs:
            if a != b and draw(st.integers(0, 2)) > 0:
                co = {a: draw(st.sampled_from([1, 1, 2, -1])), b: -draw(st.sampled_from([1, 2, 3, 0.5]))}
                g.append([co, float(dot(co, w) + draw(st.sampled_from([0, 0, 1, 2])))])
    if len(outs) >= 2 and draw(st.booleans()):
        # Kaykobad-like block: one row per output, all outputs with the same sign, dominant diagonal, small couplings
        sg = draw(st.sampled_from([1, -1]))
        if draw(st.booleans()):
            base["g"] = []        # the block is then the only information about the outputs
        for a in outs:
            co = {a: sg * draw(st.sampled_from([1, 1, 2]))}
            for b in outs:
                if b != a and draw(st.integers(0, 3)) > 0:
                    co[b] = sg * draw(st.sampled_from([0.25, 0.5, 0.75, 0.9, 0.6]))
            if ins and draw(st.integers(0, 3)) > 0:
                co[draw(st.sampled_from(ins))] = draw(coef_s(dyadic))
            g.append([co, float(dot(co, w) + draw(st.sampled_from([0, 0, 1])))])
    for _ in range(draw(st.integers(0, 2))):
        k = draw(st.integers(2, min(4, len(allv)))) if len(allv) >= 2 else 1
        vs = draw(st.lists(st.sampled_from(allv), min_size=k, max_size=k, unique=True))
        co = {v: draw(coef_s(dyadic)) for v in vs}
        g.append([co, float(dot(co, w) + draw(st.sampled_from(SLACKS)))])
    if draw(st.booleans()):
        base["g"] = g + base["g"]
    else:
        base["g"] = base["g"] + g
    return base


@st.composite
def kaykobad_pair_s(draw):
    """Producer P (inputs u.., outputs y1..yk, one guarantee row per output with dominant same-sign diagonal and small couplings
    onto the other outputs) and consumer Q (inputs y1..yk, output z, one guarantee term over all y's and z): composing them, or
    dividing a contract that mentions all y's by P, needs a multi-variable (Kaykobad-type) elimination."""
    k = draw(st.sampled_from([2, 3, 3, 4]))
    ys = ["y1", "y2", "y3", "y4"][:k]
    us = ["u1", "u2"][:draw(st.integers(1, 2))]
    names = ys + us + ["z"]
    w = draw(witness_s(names))
    rowsign = draw(st.sampled_from([1, -1]))       # sign of the y-coefficients in P's rows
    pg = []
    for y in ys:
        row = {y: rowsign * draw(st.sampled_from([1, 1, 2]))}
        wrong = draw(st.integers(0, 3)) == 0      # sometimes a coupling of the opposite sign (such a row must not be used)
        for o in ys:
            if o != y and draw(st.integers(0, 2)) > 0:
                row[o] = rowsign * draw(st.sampled_from([0.25, 0.5, 0.75, 0.6, 0.9]))
                if wrong and draw(st.booleans()):
                    row[o] = -row[o] * draw(st.sampled_from([1, 3, 4]))
        if draw(st.integers(0, 4)) > 0:
            row[draw(st.sampled_from(us))] = -rowsign * draw(st.sampled_from([1, 1, 2, 0.5]))
        pg.append([row, float(dot(row, w) + draw(st.sampled_from([0, 0, 1])))])
    if draw(st.booleans()):
        # plain bounds after the coupled rows
        for y in ys:
            if draw(st.booleans()):
                pg.append([{y: float(rowsign)}, float(rowsign * w[y] + draw(st.sampled_from([1, 2, 3])))])
    pg = list(draw(st.permutations(pg))) if draw(st.integers(0, 3)) == 0 else pg
    # the consumer's term: relaxation needs the opposite sign, refinement (assumptions of Q) the same sign
    qsign = -rowsign if draw(st.integers(0, 3)) > 0 else rowsign
    qt = {y: qsign * draw(st.sampled_from([1, 1, 1, 2, 1.5])) for y in ys}
    qt["z"] = -qsign * draw(st.sampled_from([1, 1, 2]))
    qg = [[qt, float(dot(qt, w) + draw(st.sampled_from([0, 0, 1, 2])))]]
    qa = []
    if draw(st.integers(0, 3)) == 0:
        at = {y: rowsign * draw(st.sampled_from([1, 1, 2])) for y in ys}
        qa.append([at, float(dot(at, w) + draw(st.sampled_from([3, 5, 8])))])
    pa = [[{u: 1.0}, float(w[u] + draw(st.sampled_from([1, 2, 3])))] for u in us if draw(st.booleans())]
    p = {"a": pa, "g": pg, "i": us, "o": ys}
    q = {"a": qa, "g": qg, "i": ys, "o": ["z"]}
    return {"wiring": "kaykobad", "content": "kaykobad", "c1": p, "c2": q, "witness": w}


@st.composite
def contract_pair_s(draw, kinds=WIRINGS_W, dyadic=True, feedback_assumptions=False):
    """Two contracts over a wiring, sharing a witness so that everything is jointly satisfiable."""
    if kinds is WIRINGS_W and draw(st.integers(0, 6)) == 0:
        pr = draw(kaykobad_pair_s())
        if draw(st.booleans()):
            pr["c1"], pr["c2"] = pr["c2"], pr["c1"]
        return pr
    wr = draw(wiring_s(kinds))
    names = sorted(set(wr["i1"] + wr["o1"] + wr["i2"] + wr["o2"]))
    w = draw(witness_s(names))
    content = draw(st.sampled_from(["structured", "structured", "wild", "half", "coupled", "coupled"]))
    if wr["kind"] == "cascade3":
        content = "coupled"
    ao1, ao2 = None, None
    if wr["kind"] == "feedback" and not feedback_assumptions:
        ao1 = [v for v in wr["i1"] if v not in wr["o2"]]
        ao2 = [v for v in wr["i2"] if v not in wr["o1"]]
    mk1 = structured_contract_s if content in ("structured", "half") else coupled_contract_s if content == "coupled" else wild_contract_s
    mk2 = structured_contract_s if content == "structured" else coupled_contract_s if content == "coupled" else wild_contract_s
    c1 = draw(mk1(wr["i1"], wr["o1"], w, ao1, dyadic))
    c2 = draw(mk2(wr["i2"], wr["o2"], w, ao2, dyadic))
    if content == "coupled":
        # the consumer mentions all the variables it shares with the producer in one term
        for prod, cons in ((c1, c2), (c2, c1)):
            sh = [v for v in prod["o"] if v in cons["i"]]
            if len(sh) >= 2 and (draw(st.booleans()) or len(sh) >= 3):
                co = {v: draw(coef_s(dyadic)) for v in sh}
                if draw(st.booleans()):
                    sg = draw(st.sampled_from([1, -1]))
                    co = {v: sg * draw(st.sampled_from([1, 1, 1, 2, 1.5])) for v in sh}
                tgt = draw(st.sampled_from(cons["o"]))
                co[tgt] = draw(st.sampled_from([1, -1, 2]))
                cons["g"].append([co, float(dot(co, w) + draw(st.sampled_from(SLACKS)))])
                if draw(st.integers(0, 2)) == 0 and (wr["kind"] != "feedback"):
                    ca = {v: draw(coef_s(dyadic)) for v in sh}
                    cons["a"].append([ca, float(dot(ca, w) + draw(st.sampled_from([1, 2, 5])))])
    return {"wiring": wr["kind"], "content": content, "c1": c1, "c2": c2, "witness": w}


def contract_names(*cs):
    s = set()
    for c in cs:
        s.update(c["i"])
        s.update(c["o"])
    return sorted(s)


# ---------------------------------------------------------------- solver-hard systems (mined, see tools/mine_lp_hard.py)
_LP_HARD = None
LP_SIGNS = [(s1, s2, s3) for s1 in (1.0, -1.0) for s2 in (1.0, -1.0) for s3 in (1.0, -1.0)]


def lp_hard_corpus(stable_only=True):
    """satisfiable, badly scaled systems (exact dyadic witness) on which the solver's presolved first answer is not optimal
    (observed on this build).  `stable` entries are those on which the unchanged tree answers every query the checks derive from
    them correctly (tools/validate_lp_hard.py); the others are kept as saved inputs of known findings."""
    global _LP_HARD
    if _LP_HARD is None:
        import glob
        import json
        import os
        d = os.path.join(os.path.dirname(os.path.dirname(os.path.abspath(__file__))), "corpus", "lp_hard")
        _LP_HARD = []
        for f in sorted(glob.glob(os.path.join(d, "*.json"))):
            e = json.load(open(f))
            e["file"] = os.path.basename(f)
            _LP_HARD.append(e)
    return [e for e in _LP_HARD if not e.get("raised") and (e.get("stable", False) or not stable_only)]


def lp_hard_system(entry, signs):
    """the system with its variables renamed to a, b, c and each negated or not (moves the feasible region to another orthant
    without changing the magnitudes): (terms, witness)"""
    old = sorted({n for t in entry["terms"] for n in t[0]} | set(entry["witness"]))
    ren = dict(zip(old, ["a", "b", "c"]))
    sg = dict(zip(old, signs))
    terms = [[{ren[n]: v * sg[n] for n, v in t[0].items()}, t[1]] for t in entry["terms"]]
    return terms, {ren[n]: v * sg[n] for n, v in entry["witness"].items()}


# ---------------------------------------------------------------- unusual variable names
NAME_SCHEMES = {
    # names that are prefixes / substrings of one another across the interface
    "prefix": {"a": "i1", "b": "i10", "c": "i", "x": "o1", "y": "o10", "z": "o100", "q": "o", "r": "i1x", "s": "x1", "tmp": "o1o", "zz": "i0",
               "u": "i11", "v": "o11", "w": "io", "p": "oi"},
    # names that look like numbers, exponents or well-known symbols
    "symbols": {"a": "e1", "b": "E2", "c": "inf", "x": "S", "y": "N", "z": "Q", "q": "e", "r": "nan", "s": "I", "tmp": "E", "zz": "pi",
                "u": "O", "v": "beta", "w": "re", "p": "gamma"},
    # underscores, digits, long names, names that sort differently from their insertion order
    "shapes": {"a": "_a", "b": "a_", "c": "a" * 40, "x": "x_1", "y": "x_10", "z": "x_2", "q": "x_", "r": "_", "s": "__x", "tmp": "x__", "zz": "a_a",
               "u": "Z9", "v": "z10", "w": "z9", "p": "Z10"},
}


def rename_terms(ts, m):
    return [[{m.get(k, k): v for k, v in t[0].items()}, t[1]] for t in ts]


def rename_contract(c, m):
    return {"a": rename_terms(c["a"], m), "g": rename_terms(c["g"], m), "i": [m.get(v, v) for v in c["i"]], "o": [m.get(v, v) for v in c["o"]]}

# the same idea for the names used by the wirings and the Kaykobad pairs
WIRING_SCHEMES = {
    "symbols": {"m": "S", "n": "N", "k": "Q", "s": "I", "i1": "e1", "j1": "E2", "o1": "O", "p1": "pi", "i2": "inf", "j2": "nan", "o2": "beta",
                "p2": "gamma", "f1": "re", "f2": "im", "y1": "x1", "y2": "x10", "y3": "x100", "y4": "x1000", "u1": "u", "u2": "u1", "z": "zeta"},
    "prefix": {"i1": "i", "j1": "i1", "i2": "i10", "j2": "i11", "o1": "o", "p1": "o1", "o2": "o10", "p2": "o11", "m": "io", "n": "oi", "k": "ioi",
               "s": "i_", "f1": "o_", "f2": "_o", "y1": "y", "y2": "y1", "y3": "y11", "y4": "y111", "u1": "yu", "u2": "uy", "z": "yy"},
}
