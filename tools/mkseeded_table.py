#!/usr/bin/env python3
"""prints the markdown table of seeded changes from seeded/*/meta.json (+ optional log of tools/run_seeded.sh)"""
import json, os, sys
log = {}
if len(sys.argv) > 1:
    for line in open(sys.argv[1]):
        p = line.split()
        if p:
            log[p[0]] = " ".join(p[1:])
rows = []
for n in sorted(os.listdir("/verif/seeded")):
    mp = os.path.join("/verif/seeded", n, "meta.json")
    if not os.path.exists(mp):
        continue
    m = json.load(open(mp))
    def short(x, k=150):
        x = " ".join(str(x or "").split())
        return (x[:k] + "...") if len(x) > k else x
    rows.append("| %s | %s | %s | %s | %s | %s |" % (n, m["property"], short(m.get("breaks")), short(m.get("needs"), 130),
                                                   ", ".join(m.get("caught_by") or ["-"]) + ((" (" + log[n] + ")") if n in log else ""), short(m.get("note"), 160)))
print("| change | property | what was changed | what it needs to manifest | caught by (quick tier) | note |\n|---|---|---|---|---|---|")
print("\n".join(rows))
