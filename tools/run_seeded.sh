#!/bin/bash
# usage: tools/run_seeded.sh [tier] [name...]   re-runs every kept seeded change against the checks listed in its meta.json (caught_by)
# and prints one line per change: CAUGHT / MISSED per check.  Uses scratch worktrees only (never touches /repo).
TIER="${1:-quick}"; shift
cd /verif
NAMES="${@:-$(ls seeded)}"
for n in $NAMES; do
  checks=$(python3 -c "import json;m=json.load(open('seeded/$n/meta.json'));print(' '.join(m['caught_by'] or [m['property']]))")
  res=""
  out=$(tools/try_mutant.sh seeded/$n/patch.diff $TIER $checks 2>&1)
  for c in $checks; do
    if echo "$out" | grep -q "^== $c rc=1"; then res="$res $c:CAUGHT"; elif echo "$out" | grep -q "^== $c rc=0"; then res="$res $c:missed"; else res="$res $c:ERROR"; fi
  done
  echo "$n $res"
done
