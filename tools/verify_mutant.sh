#!/bin/bash
# usage: tools/verify_mutant.sh <worktree> <outdir> <A|B>   -- confirms: applies, suite passes (on the tree), demo fails with / passes without
WT="$1"; OUT="$2"; X="$3"
cd "$WT" || exit 2
git checkout -q -- . ; git clean -fdq -e .pytest_cache >/dev/null 2>&1
git apply "$OUT/patch_$X.diff" || { echo "NOAPPLY"; exit 2; }
S=$(PYTHONPATH="$WT/src" /venv/bin/python -m pytest -q -p no:cacheprovider 2>&1 | tail -1)
PYTHONPATH="$WT/src" timeout 600 /venv/bin/python "$OUT/demo_$X.py" >/tmp/demo_with.txt 2>&1; RW=$?
git checkout -q -- .
PYTHONPATH="$WT/src" timeout 600 /venv/bin/python "$OUT/demo_$X.py" >/tmp/demo_without.txt 2>&1; RO=$?
echo "suite: $S | demo with patch rc=$RW | without rc=$RO"
tail -3 /tmp/demo_with.txt
