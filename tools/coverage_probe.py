#!/venv/bin/python
"""Which lines / branches of /repo/src/pacti do the generators of the checks reach?  (diagnostic, not a check)
usage: tools/coverage_probe.py <cases per module> [module ids...]"""
import sys, os, importlib
sys.path.insert(0, "/verif")
import coverage
cov = coverage.Coverage(source=[os.environ.get("PV_SRC", "/repo/src") + "/pacti"], branch=True, data_file=None)
cov.start()
from pv import env, exact  # noqa
from hypothesis import given, settings, seed, HealthCheck
n = int(sys.argv[1]); mods = sys.argv[2:] or ["c%02d" % i for i in range(1, 20)]
for m in mods:
    mod = importlib.import_module("pv.props." + m)
    if getattr(mod, "enumerate_cases", None):
        for i, case in enumerate(mod.enumerate_cases("quick")):
            if i % 7 == 0:
                try: mod.run_case(case)
                except Exception: pass
            if i > 40000: break
    if not getattr(mod, "strategy", None): continue
    @seed(1)
    @settings(max_examples=n, database=None, deadline=None, suppress_health_check=list(HealthCheck))
    @given(mod.strategy("quick"))
    def t(case):
        try: mod.run_case(case)
        except (env.Undocumented, exact.Inconclusive): pass
    try: t()
    except Exception as e: print("ERR", m, type(e).__name__, str(e)[:100])
cov.stop()
cov.report(show_missing=True, skip_covered=False)
