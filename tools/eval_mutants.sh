#!/bin/bash
# usage: tools/eval_mutants.sh <NAME> <tier> <check ids...>  : verifies /tmp/mut/<NAME>.out/patch_{A,B}.diff and runs the checks against them
ID="$1"; TIER="$2"; shift 2
for X in A B; do
  [ -f /tmp/mut/$ID.out/patch_$X.diff ] || continue
  echo "#### $ID-$X"; /verif/tools/verify_mutant.sh /tmp/mut/$ID /tmp/mut/$ID.out $X | head -2 | cut -c1-250
  /verif/tools/try_mutant.sh /tmp/mut/$ID.out/patch_$X.diff $TIER "$@" 2>&1 | grep -E "^==|VIOLATION|what:|APPLY" | cut -c1-230
done
