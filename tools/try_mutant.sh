#!/bin/bash
# usage: tools/try_mutant.sh <patch.diff> <tier> <ID> [<ID>...]
# Applies the patch to a scratch worktree of /repo HEAD (never to /repo itself), runs the given checks against it through
# PV_SRC (the only use of that variable), and removes the worktree.  Evidence written during such a run describes the mutated
# tree: re-run the checks on /repo before committing evidence.
set -u
PATCH="$(readlink -f "$1")"; TIER="$2"; shift 2
WT=/tmp/mutrun.$$
git -C /repo worktree add -q --detach "$WT" HEAD || exit 2
trap 'git -C /repo worktree remove --force "$WT" >/dev/null 2>&1' EXIT
git -C "$WT" apply "$PATCH" || { echo "PATCH DOES NOT APPLY"; exit 2; }
cd /verif
for id in "$@"; do
  out=$(PV_SRC="$WT/src" ./check "$id" --tier "$TIER" 2>&1); rc=$?
  echo "== $id rc=$rc"; echo "$out" | grep -E "VIOLATION|what:|KNOWN|HARNESS|evaluations" | head -8
done
