#!/bin/bash
# usage: tools/try_mutant.sh <patch.diff> <tier> <ID> [<ID>...]
# applies the patch to /repo, runs the given checks, ALWAYS reverts /repo afterwards. Evidence/replays are written to a scratch dir copy? no:
# they are written to /verif as usual; callers should `git checkout evidence` afterwards if they do not want them.
set -u
PATCH="$1"; TIER="$2"; shift 2
cd /repo || exit 2
if ! git diff --quiet; then echo "REPO NOT CLEAN"; exit 2; fi
trap 'git -C /repo checkout -- . ; ' EXIT
git apply "$PATCH" || { echo "PATCH DOES NOT APPLY"; exit 2; }
cd /verif
for id in "$@"; do
  out=$(./check "$id" --tier "$TIER" 2>&1); rc=$?
  echo "== $id rc=$rc"; echo "$out" | grep -E "VIOLATION|what:|KNOWN|HARNESS|evaluations" | head -8
done
