#!/venv/bin/python
"""validate_lp_hard.py

Runs, on the unchanged tree (/repo/src or $PV_SRC), every case that C03, C07 and C11 derive from every mined solver-hard system
(corpus/lp_hard/*.json, all 8 sign patterns) through the checks' own run_case(), and writes the verdict back into the corpus
files: `stable: true` if every derived case is judged correct (or is covered by a signature-level known finding), else
`stable: false` plus the list of failing cases.  Only stable systems are enumerated by the checks; the failing cases of the others
are printed so that they can be saved under regress/<ID>/ and listed, each by its own input, in known_findings.jsonl.
Nothing here looks at any seeded change.
"""
import glob
import json
import multiprocessing as mp
import os
import sys

sys.path.insert(0, "/verif")
os.environ.setdefault("OMP_NUM_THREADS", "1")


def work(path):
    from pv import env, runner  # noqa: F401
    from pv.props import c03, c07, c11
    e = json.load(open(path))
    if e.get("raised"):
        return path, None, []
    e["file"] = os.path.basename(path)
    bad = []
    for pid, mod, cases in (("C03", c03, c03.lp_hard_cases(e, full=True)), ("C11", c11, c11.lp_hard_cases(e)), ("C07", c07, c07.lp_hard_cases(e))):
        known, _ = runner.load_known(pid)
        known = [k for k in known if "case" not in k]
        for case in cases:
            try:
                out = mod.run_case(case)
            except Exception as ex:  # noqa: B902
                bad.append({"pid": pid, "case": case, "what": "harness/undocumented: %r" % ex, "sig": {"kind": "exception"}})
                continue
            v = out.get("viol")
            if v and runner.match_known(known, v.get("sig", {}), case) is None:
                bad.append({"pid": pid, "case": case, "what": v["what"], "sig": v["sig"]})
    return path, not bad, bad


def main():
    files = sorted(glob.glob("/verif/corpus/lp_hard/*.json"))
    with mp.Pool(16) as pool:
        res = pool.map(work, files, chunksize=1)
    allbad = []
    n_stable = 0
    for path, stable, bad in res:
        if stable is None:
            continue
        e = json.load(open(path))
        e["stable"] = bool(stable)
        e.pop("failing", None)
        if bad:
            e["failing"] = [{"pid": b["pid"], "what": b["what"]} for b in bad[:5]]
        json.dump(e, open(path, "w"))
        n_stable += bool(stable)
        allbad += bad
    print("systems:", len([r for r in res if r[1] is not None]), "stable:", n_stable, "failing cases:", len(allbad))
    json.dump(allbad, open("/tmp/lp_hard_failing.json", "w"))
    for b in allbad[:40]:
        print(b["pid"], b["sig"], b["what"][:110], b["case"].get("src"))


if __name__ == "__main__":
    main()
