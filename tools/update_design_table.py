#!/usr/bin/env python3
"""replaces the full table of seeded changes in DESIGN.md (section 7) by the output of tools/mkseeded_table.py"""
import subprocess, sys
src = open("/verif/DESIGN.md").read().split("\n")
start = next(i for i, l in enumerate(src) if l.startswith("| change | property | what was changed"))
end = start
while end < len(src) and src[end].startswith("|"):
    end += 1
table = subprocess.run([sys.executable, "/verif/tools/mkseeded_table.py"] + sys.argv[1:], capture_output=True, text=True, check=True).stdout.rstrip("\n").split("\n")
open("/verif/DESIGN.md", "w").write("\n".join(src[:start] + table + src[end:]))
print("table rows:", len(table) - 2)
