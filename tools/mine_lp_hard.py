#!/venv/bin/python
"""mine_lp_hard.py [n_per_worker] [seed]

Random search for *solver-hard* constraint systems: satisfiable lists (an exact dyadic witness is kept) on which the first,
presolved `linprog` call of pacti's containment / emptiness / redundancy tests does not come back optimal, so that the
second-attempt logic is what answers.  The feedback signal is the solver status observed through a wrapper around
`pacti.terms.polyhedra.polyhedra.linprog` on the unchanged tree; nothing about any seeded change is used.

The systems found are written to /verif/corpus/lp_hard/<op>-<sha>.json and are drawn (with sign flips, variable and row
permutations) by the generators of C03, C07 and C11.  Re-run after a scipy upgrade: the corpus describes this solver build.
"""
import hashlib
import json
import multiprocessing as mp
import os
import random
import sys

sys.path.insert(0, os.environ.get("PV_SRC", "/repo/src"))
os.environ.setdefault("OMP_NUM_THREADS", "1")
import logging  # noqa: E402

logging.disable(logging.CRITICAL)
import pacti.terms.polyhedra.polyhedra as P  # noqa: E402
from pacti.iocontract import Var  # noqa: E402

OUT = "/verif/corpus/lp_hard"
NAMES = "xyz"
_orig = P.linprog
_bad = [0]


def _lp(*a, **k):
    r = _orig(*a, **k)
    if "options" not in k and "method" not in k and r.status != 0:
        _bad[0] += 1
    return r


P.linprog = _lp


def T(co, c):
    return P.PolyhedralTerm({Var(k): v for k, v in co.items() if v != 0}, c)


def gen(rnd):
    # coefficient spread kept below 1e7 (2^23 = 8.4e6): beyond that the solver's answers are not reliable on the unchanged tree
    eps, bigs = rnd.choice([(2.0 ** -10, [1024.0, 8192.0]), (2.0 ** -10, [1024.0, 8192.0]), (2.0 ** -7, [4096.0, 65536.0]),
                            (2.0 ** -10, [512.0, 4096.0]), (2.0 ** -4, [8192.0, 2.0 ** 19])])
    vals = [0, 0, 1, 2, -1, -2, eps, -eps] + bigs + [-b for b in bigs]
    wset = rnd.choice([[-100, -80, -50], [-100, -80, -50], [100, 80, -100], [-3, -1, 0, 2], [50, 80, 100]])
    w = [float(rnd.choice(wset)) for _ in NAMES]
    rows = []
    for _ in range(rnd.choice([3, 4, 5, 5])):
        co = [float(rnd.choice(vals)) for _ in NAMES]
        if not any(co):
            co[0] = 1.0
        d = sum(a * b for a, b in zip(co, w))
        c = float(rnd.choice([0, -1, -3, 5]))
        if c < d:
            c = d + rnd.choice([0, 1])
        rows.append([dict((n, v) for n, v in zip(NAMES, co) if v != 0), c])
    return rows, dict(zip(NAMES, w))


def work(args):
    n, seed = args
    rnd = random.Random(seed)
    found = []
    for _ in range(n):
        rows, w = gen(rnd)
        if os.environ.get("MINE_TRACE"):
            json.dump({"terms": rows, "witness": w}, open("/tmp/mine_trace_%d.json" % seed, "w"))
        tl = P.PolyhedralTermList([T(*r) for r in rows])
        for op in ("refines", "is_empty", "simplify"):
            b = _bad[0]
            idx = None
            try:
                if op == "refines":
                    for i, r in enumerate(rows):
                        b = _bad[0]
                        tl.copy().refines(P.PolyhedralTermList([T(*r)]))
                        if _bad[0] > b:
                            idx = i
                            break
                elif op == "is_empty":
                    tl.copy().is_empty()
                else:
                    tl.copy().simplify()
            except Exception as e:  # noqa: B902  (an exception here is interesting in itself)
                found.append({"op": op, "terms": rows, "witness": w, "row": idx, "raised": "%s: %s" % (type(e).__name__, str(e)[:80])})
                continue
            if (idx is not None) if op == "refines" else (_bad[0] > b):
                found.append({"op": op, "terms": rows, "witness": w, "row": idx})
    return found


def main():
    n = int(sys.argv[1]) if len(sys.argv) > 1 else 4000
    seed = int(sys.argv[2]) if len(sys.argv) > 2 else 1
    os.makedirs(OUT, exist_ok=True)
    with mp.Pool(16) as pool:
        res = pool.map(work, [(n, seed * 1000 + k) for k in range(16)])
    kept = {}
    for fs in res:
        for f in fs:
            kept.setdefault(f["op"] + ("-raised" if f.get("raised") else ""), []).append(f)
    for op, fs in kept.items():
        print(op, len(fs))
        for f in fs[:60]:
            h = hashlib.sha1(json.dumps(f["terms"], sort_keys=True).encode()).hexdigest()[:10]
            json.dump(f, open(os.path.join(OUT, "%s-%s.json" % (f["op"], h)), "w"))
    print("tried", n * 16)


if __name__ == "__main__":
    main()
