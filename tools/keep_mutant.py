#!/usr/bin/env python3
"""keep_mutant.py <ID> <A|B> <caught_by comma list or 'none'> [note] [srcdir]
copies a verified seeded change into /verif/seeded/<ID>-<X>/"""
import json
import os
import shutil
import sys

pid, x, caught = sys.argv[1:4]
note = sys.argv[4] if len(sys.argv) > 4 else ""
src = sys.argv[5] if len(sys.argv) > 5 else "/tmp/mut/%s.out" % pid
name = os.path.basename(src.rstrip("/")).replace(".out", "")
dst = "/verif/seeded/%s-%s" % (name, x)
os.makedirs(dst, exist_ok=True)
shutil.copy(os.path.join(src, "patch_%s.diff" % x), os.path.join(dst, "patch.diff"))
shutil.copy(os.path.join(src, "demo_%s.py" % x), os.path.join(dst, "demo.py"))
m = json.load(open(os.path.join(src, "meta_%s.json" % x)))
meta = {"property": pid, "breaks": m.get("summary"), "needs": m.get("needs"),
        "author": "independent sub-agent given only the property text and a scratch worktree",
        "agent_ran": m.get("ran"),
        "confirmed_by_me": ["git apply patch.diff in a scratch worktree of /repo HEAD",
                            "PYTHONPATH=<wt>/src /venv/bin/python -m pytest -q -p no:cacheprovider  -> 144 passed, 2 skipped",
                            "demo.py exits 1 with the patch, exits 0 without (tools/verify_mutant.sh)",
                            "tools/try_mutant.sh patch.diff quick <checks> (applies to /repo, runs the checks, reverts)"],
        "caught_by": [] if caught == "none" else caught.split(","), "note": note}
json.dump(meta, open(os.path.join(dst, "meta.json"), "w"), indent=1)
print("kept", dst)
