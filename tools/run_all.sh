#!/bin/bash
# usage: tools/run_all.sh <tier> [seed]   runs every registered check, prints one line each
TIER="${1:-quick}"; export VERIF_SEED="${2:-1}"
cd /verif
for id in $(python3 -c "import json;print(' '.join(c['property_id'] for c in json.load(open('MANIFEST.json'))['checks']))"); do
  s=$(date +%s); out=$(./check $id --tier $TIER 2>&1); rc=$?; e=$(date +%s)
  echo "$id rc=$rc $((e-s))s $(echo "$out" | grep -cE '^VIOLATION') viol $(echo "$out" | grep -c KNOWN-FINDING) known | $(echo "$out" | tail -1)"
  echo "$out" | grep -E "^VIOLATION|what:|HARNESS" | head -6
done
