#!/usr/bin/env python3
"""Regenerate MANIFEST.json from the table below + the property modules present in pv/props."""
import json, os, subprocess
HERE = os.path.dirname(os.path.dirname(os.path.abspath(__file__)))
ORACLE = "generated-input search (Hypothesis strategies, seeded by VERIF_SEED, sharded over processes"
T = {
 "C01": ("property-based testing: Hypothesis-generated contract pairs x wirings x keep/simplify/tactic orders, judged by an exact rational implication oracle (z3 as decision procedure, witnesses re-checked with Fractions)", "5/C01"),
 "C02": ("property-based testing: Hypothesis-generated (dividend, divisor) pairs incl. dividends built by composition, exact rational implication oracle", "5/C02"),
 "C03": ("property-based testing: class-directed generated pairs plus an enumerated, validated corpus of mined solver-hard systems under 8 sign patterns, differential against exact containment decided by z3, judged only outside the grey zone", "5/C03"),
 "C04": ("property-based testing + bounded enumeration of a small integer grid: elimination calls for every tactic order, exact implication oracle", "5/C04"),
 "C05": ("property-based testing of the generic algebra over a finite-domain constraint stub whose primitives are nondeterministic within their documented contracts (choices drawn by Hypothesis), truth-table oracle", "5/C05"),
 "C06": ("bounded-exhaustive enumeration of interface topologies over a stub theory + generated polyhedral cases, reference model of the prescribed interfaces", "5/C06"),
 "C07": ("property-based testing with planted redundancy and an enumerated corpus of mined solver-hard systems, exact oracle for selection/equivalence/irredundancy", "5/C07"),
 "C08": ("property-based testing, exact equivalence oracle, operand-order metamorphic relation", "5/C08"),
 "C09": ("grammar-based generation of expression trees rendered in several spellings + coverage-guided byte fuzzing (atheris), reference evaluator and exact equivalence for all real points", "5/C09"),
 "C10": ("property-based round-trip testing (dict, strings, files) with exact comparison against the 4-significant-digit reading", "5/C10"),
 "C11": ("property-based testing with boundary-placed dyadic behaviours under several variable-naming schemes and an enumerated corpus of mined solver-hard systems, Fraction evaluation / exact feasibility oracle", "5/C11"),
 "C12": ("property-based differential testing against an exact rational LP optimum (z3 Optimize)", "5/C12"),
 "C13": ("stateful property-based testing: generated operation histories over a shared pool, deep-snapshot invariants, aliasing scramble, replay of every step in a pristine forked interpreter", "5/C13"),
 "C14": ("exception classification over all generators + adversarial shapes, and exhaustive single-field fault injection into contract dictionaries/files", "5/C14"),
 "C15": ("property-based testing with planted overlapping guarantees, exact implication oracle", "5/C15"),
 "C16": ("property-based testing against a reference substitution model, exact equivalence oracle, rename-and-back round trip", "5/C16"),
 "C17": ("property-based testing over interval-box alternatives, exact oracle with disjunctions", "5/C17"),
 "C18": ("property-based differential testing against exact rational vertex enumeration", "5/C18"),
 "C19": ("property-based testing with single-field edits, logical coherence oracle (eq/hash/copy laws)", "5/C19"),
}
LEVELS = {"C14": "fault_enumeration"}
props = [json.loads(l) for l in open(os.path.join(HERE, "properties.jsonl"))]
checks, na = [], []
for p in props:
    pid = p["id"]
    if os.path.exists(os.path.join(HERE, "pv", "props", pid.lower() + ".py")):
        tech, ref = T[pid]
        checks.append({
            "property_id": pid,
            "quick_cmd": "./check %s --tier quick" % pid,
            "thorough_cmd": "./check %s --tier thorough" % pid,
            "evidence_file": "evidence/%s.json" % pid,
            "replay_cmd_template": "./check %s --replay {path}" % pid,
            "engine": "pv-runner",
            "level_claimed": {"category": LEVELS.get(pid, "exploration"),
                              "text": "Decides the property on every generated case with an explicit oracle independent of pacti; "
                                      "reports cases generated, distinct non-trivial cases, class histogram and samples. It never proves absence: "
                                      "a violation confined to inputs the generators do not reach is missed.",
                              "design_ref": "DESIGN.md section " + ref},
            "level_note": "trusted base: z3 'unsat' answers (every reported witness is re-checked with fractions.Fraction), CPython float->Fraction, "
                          "the reference models in pv/ (each small, written from the documentation, exercised by seeded mutants)",
            "technique": tech,
        })
    else:
        na.append({"property_id": pid, "reason": "check not built yet in this round (planned; see DESIGN.md section 5)"})
man = {
 "version": 1,
 "setup_cmd": "./setup.sh",
 "hooks": {"guard": "PACTI_VERIF", "enable": "no source hook is needed: checks import /repo/src directly (pv/env.py pins sys.path and asserts pacti.__file__ is under /repo/src); PACTI_VERIF is reserved and unused",
           "baseline_off_cmd": "cd /repo && /venv/bin/python -m pytest -ra -q -p no:cacheprovider --timeout=900 --continue-on-collection-errors",
           "source_commits": [], "add_only": True},
 "engines": [{"name": "pv-runner", "path": "pv/runner.py", "serves_properties": [c["property_id"] for c in checks],
              "kind_free_text": "Hypothesis-driven generation sharded over processes (seed = VERIF_SEED*1000+shard), bounded enumerations, z3-based exact oracles, evidence/replay/known-findings handling"}],
 "checks": checks,
 "not_applicable": na,
 "notes": "The baseline pytest command imports the site-packages copy of pacti (0.3.1), not /repo/src; after every /repo commit the suite is also run with PYTHONPATH=/repo/src (144 passed). fix: commits are listed in known_findings.jsonl as status=fixed.",
}
json.dump(man, open(os.path.join(HERE, "MANIFEST.json"), "w"), indent=1)
print("checks:", [c["property_id"] for c in checks], "not_applicable:", [n["property_id"] for n in na])
