from common import *
import collections
from pacti.terms.polyhedra.serializer import polyhedral_termlist_from_string as P
from pacti.utils.errors import PolyhedralSyntaxConvexException, PolyhedralSyntaxException
rnd = random.Random(int(sys.argv[1])); N=int(sys.argv[2])
VARS=['x','y','z']
def num():
    v=rnd.choice([1,2,3,4,0.5,0.25,1.5])
    forms=[repr(float(v)), '%g'%v]
    if v==int(v): forms+=[str(int(v)), '%d.'%v, '%de0'%v, '(%d+%d)'%(int(v)-1,1) if v>1 else '(2-1)', '(%d/2)'%(2*int(v)), '(%d*1)'%int(v)]
    else: forms+=[('%g'%v).lstrip('0') if v<1 else '%g'%v]
    return rnd.choice(forms), float(v)
def mul(): return rnd.choice(['','*',' ',' * ','* '])
def sgn(first):
    if first: return rnd.choice(['','','','-','+','- '])
    return rnd.choice(['+','-',' + ',' - ','+ ','- '])
def zabs(e): return z3.If(e>=0,e,-e)
def g_term(d):
    k=rnd.choice(['v','v','nv','nv','n','p','np'] if d>0 else ['v','nv','n'])
    if k=='v': v=rnd.choice(VARS); return v, zv(v)
    if k=='nv': c,cv=num(); v=rnd.choice(VARS); m=mul(); 
    if k=='nv':
        if m.strip()=='' and c[-1].isdigit() is False and False: pass
        return c+m+v, q(cv)*zv(v)
    if k=='n': c,cv=num(); return c, q(cv)
    if k=='p': s,e=g_terms(d-1); return '('+s+')', e
    c,cv=num(); s,e=g_terms(d-1); return c+mul()+'('+s+')', q(cv)*e
def apply(sign,e,acc):
    return acc-e if sign.strip()=='-' else acc+e
def g_terms(d):
    n=rnd.randint(1,3); out=''; acc=z3.RealVal(0)
    for i in range(n):
        s=sgn(i==0); t,e=g_term(d); out+=s+t; acc=apply(s,e,acc)
    return out,acc
def g_abs(d):
    s,e=g_terms(d)
    if rnd.random()<0.5: c,cv=num(); return c+mul()+'|'+s+'|', q(cv)*zabs(e)
    return '|'+s+'|', zabs(e)
ABSPOOL=[]
def g_item(d):
    r=rnd.random()
    if r<0.35:
        if ABSPOOL and rnd.random()<0.5: return rnd.choice(ABSPOOL)
        a=g_abs(d); ABSPOOL.append(a); return a
    return g_term(d)
def g_abs_or_terms(d):
    n=rnd.randint(1,3); out=''; acc=z3.RealVal(0)
    for i in range(n):
        s=sgn(i==0); t,e=g_item(d); out+=s+t; acc=apply(s,e,acc)
    return out,acc
def g_multi(d):
    n=rnd.randint(1,3); out=''; acc=z3.RealVal(0)
    for i in range(n):
        s=sgn(i==0)
        if rnd.random()<0.35:
            t,e=g_abs_or_terms(d-1 if d>0 else 0)
            if rnd.random()<0.5: c,cv=num(); t=c+mul()+'('+t+')'; e=q(cv)*e
            else: t='('+t+')'
        else: t,e=g_item(d)
        out+=s+t; acc=apply(s,e,acc)
    return out,acc
st=collections.Counter(); ex=collections.defaultdict(list)
for it in range(N):
    ABSPOOL.clear()
    op=rnd.choice(['<=','<=','>=','=','=='])
    sp=rnd.choice([' ',' ','','  '])
    if op in ('=','=='):
        l,le=g_terms(1); r,re_=g_terms(1); s=l+sp+op+sp+r; rel=(le==re_)
    else:
        k=rnd.choice([2,2,3]); sides=[g_multi(1) for _ in range(k)]
        s=(sp+op+sp).join(x[0] for x in sides)
        rel=z3.And([ (sides[i][1]<=sides[i+1][1]) if op=='<=' else (sides[i][1]>=sides[i+1][1]) for i in range(k-1)])
    hasabs='|' in s
    try: r=P(s)
    except PolyhedralSyntaxConvexException: st[('convex-exc',hasabs)]+=1; continue
    except PolyhedralSyntaxException as e: st['syntax-exc']+=1; ex['syntax'].append(s); continue
    except Exception as e: st[type(e).__name__]+=1; ex[type(e).__name__].append(s); continue
    parsed=z3.And([holds(t) for t in r]) if r else z3.BoolVal(True)
    sv=z3.Solver(); sv.add(parsed!=rel)
    if sv.check()==z3.sat:
        st[('MISMATCH',hasabs)]+=1; ex['mismatch'].append((s,[str(t) for t in r]))
    else: st[('ok',hasabs)]+=1
for k in sorted(st,key=str): print(k,st[k])
for k,v in ex.items():
    print('EX',k,len(v))
    for x in sorted(v,key=lambda y: len(str(y)))[:12]: print('   ',x)
