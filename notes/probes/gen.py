from common import *
def rterm(rnd, pool, kmax=3, coefs=(-3,-2,-1,1,2,3), cr=5):
    k=rnd.randint(1,min(kmax,len(pool))); vs=rnd.sample(pool,k)
    return T({v:rnd.choice(coefs) for v in vs}, rnd.randint(-cr,cr))
def rcontract(rnd, ins, outs, na=(0,2), ng=(1,3), must_out=True):
    a=[rterm(rnd, ins) for _ in range(rnd.randint(*na))] if ins else []
    g=[]
    for _ in range(rnd.randint(*ng)):
        t=rterm(rnd, ins+outs)
        g.append(t)
    return PolyhedralIoContract(PolyhedralTermList(a), PolyhedralTermList(g), [Var(v) for v in ins], [Var(v) for v in outs])
def rpair(rnd, wiring=None):
    wiring = wiring or rnd.choice(['indep','cascade12','cascade21','shared_in','feedback','mixed'])
    if wiring=='indep':
        i1,o1,i2,o2=['i1'],['o1'],['i2'],['o2']
    elif wiring=='cascade12':
        i1,o1,i2,o2=['i1','j1'][:rnd.randint(1,2)],['m','o1'][:rnd.randint(1,2)],['m','i2'][:rnd.randint(1,2)],['o2']
    elif wiring=='cascade21':
        i2,o2,i1,o1=['i1','j1'][:rnd.randint(1,2)],['m','o1'][:rnd.randint(1,2)],['m','i2'][:rnd.randint(1,2)],['o2']
    elif wiring=='shared_in':
        i1,o1,i2,o2=['s','i1'][:rnd.randint(1,2)],['o1'],['s','i2'][:rnd.randint(1,2)],['o2']
    elif wiring=='feedback':
        i1,o1,i2,o2=['i1','f2'],['f1'],['f1','i2'][:rnd.randint(1,2)],['f2','o2'][:rnd.randint(1,2)]
    else:
        i1,o1,i2,o2=['s','i1','m2'][:rnd.randint(1,3)],['m1','o1'],['s','m1','i2'],['m2','o2']
    return wiring,(i1,o1),(i2,o2)
