from common import *
def isolate_variable(self, var_to_isolate):
    if var_to_isolate not in self.vars:
        raise ValueError()
    return PolyhedralTerm(variables={k: -v / self.get_coefficient(var_to_isolate) for k, v in self.variables.items() if k != var_to_isolate},
        constant=-self.constant / self.get_coefficient(var_to_isolate))
PolyhedralTerm.isolate_variable = isolate_variable
