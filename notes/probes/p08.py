from gen import *
import collections
rnd = random.Random(int(sys.argv[1])); N=int(sys.argv[2])
st=collections.Counter(); ex={}
def equiv(f1,f2,names):
    s=z3.Solver(); s.add(f1!=f2); return s.check()!=z3.sat
for it in range(N):
    k=rnd.choice(['shared_in','shared_out','disjoint','both'])
    if k=='shared_in': i1,o1,i2,o2=['s','i1'],['o1'],['s','i2'],['o2']
    elif k=='shared_out': i1,o1,i2,o2=['i1'],['o','o1'],['i2'],['o','o2']
    elif k=='disjoint': i1,o1,i2,o2=['i1'],['o1'],['i2'],['o2']
    else: i1,o1,i2,o2=['s','i1'],['o'],['s'],['o','o2']
    try:
        c1=rcontract(rnd,i1,o1); c2=rcontract(rnd,i2,o2)
        if rnd.random()<0.4 and c1.g.terms:
            t=rnd.choice(c1.g.terms); 
            if set(v.name for v in t.vars)<=set(i2+o2):
                c2=PolyhedralIoContract(c2.a, c2.g|PolyhedralTermList([t.multiply(rnd.choice([1,2]))]), c2.inputvars,c2.outputvars); k+='+dup'
    except ValueError: st['construct']+=1; continue
    names=sorted(set(i1+o1+i2+o2))
    try: m=c1.merge(c2); m2=c2.merge(c1)
    except ValueError as e:
        s=z3.Solver(); s.add(conj(c1.a),conj(c2.a),conj(c1.g),conj(c2.g)); fe=s.check()==z3.sat
        st[(k,'VE','feasible' if fe else 'infeasible')]+=1
        if fe: ex.setdefault('VE-feas',(str(c1),str(c2)))
        continue
    okA=equiv(conj(m.a), z3.And(conj(c1.a),conj(c2.a)),names)
    okG=equiv(z3.And(conj(m.a),conj(m.g)), z3.And(conj(c1.a),conj(c2.a),conj(c1.g),conj(c2.g)),names)
    okI=set(m.inputvars)==set(c1.inputvars)|set(c2.inputvars) and set(m.outputvars)==set(c1.outputvars)|set(c2.outputvars)
    sym=equiv(conj(m.a),conj(m2.a),names) and equiv(z3.And(conj(m.a),conj(m.g)),z3.And(conj(m2.a),conj(m2.g)),names)
    st[(k,okA,okG,okI,sym)]+=1
    if not (okA and okG and okI and sym): ex.setdefault((k,okA,okG,okI,sym),(str(c1),str(c2),str(m)))
for k in sorted(st,key=str): print(k,st[k])
for k,v in ex.items(): print('EX',k); [print('   ',x) for x in v]
