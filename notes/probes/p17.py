from gen import *
import collections, traceback
from pacti.contracts import PolyhedralIoContractCompound
from pacti.contracts.polyhedral_iocontract import NestedPolyhedra
rnd = random.Random(int(sys.argv[1])); N=int(sys.argv[2])
st=collections.Counter(); ex={}
def disj(ntl): return z3.Or([conj(tl) for tl in ntl]) if ntl else z3.BoolVal(False)
def box1(v,lo,hi): return [T({v:1},hi),T({v:-1},-lo)]
def ralts(pool, n):
    # interval boxes along first var to control overlap
    alts=[]
    for _ in range(n):
        lo=rnd.randint(-6,4); hi=lo+rnd.randint(0,3)
        ts=box1(pool[0],lo,hi)
        for v in pool[1:]:
            if rnd.random()<0.5: ts+= [rterm(rnd,pool)]
        alts.append(PolyhedralTermList(ts))
    return alts
def sat(*f):
    s=z3.Solver(); s.add(*f); return s.check()==z3.sat
for it in range(N):
    ins=['i','j'][:rnd.randint(1,2)]; outs=['o']
    A1=ralts(ins, rnd.randint(1,3)); A2=ralts(ins, rnd.randint(1,3))
    G1=ralts(outs+ins, rnd.randint(1,3)); G2=ralts(outs+ins, rnd.randint(1,3))
    def overlap(alts): return any(sat(conj(alts[i]),conj(alts[j])) for i in range(len(alts)) for j in range(i+1,len(alts)))
    cs=[]
    bad=False
    for A,G in ((A1,G1),(A2,G2)):
        ov=overlap(A)
        try:
            c=PolyhedralIoContractCompound(NestedPolyhedra(A,True),NestedPolyhedra(G,False),[Var(v) for v in ins],[Var(v) for v in outs])
            st[('ctor','overlap' if ov else 'disjoint','returned')]+=1
            if ov: ex.setdefault('ctor-overlap-accepted',[str(a) for a in A])
            cs.append(c)
        except ValueError:
            st[('ctor','overlap' if ov else 'disjoint','VE')]+=1
            if not ov: ex.setdefault('ctor-disjoint-rejected',[str(a) for a in A])
            bad=True
    if bad or len(cs)<2: continue
    try: m=cs[0].merge(cs[1])
    except ValueError as e: st[('merge','VE')]+=1; ex.setdefault('mergeVE',(str(cs[0]),str(cs[1]),str(e)[:200])); continue
    except Exception as e: st[('merge',type(e).__name__)]+=1; continue
    s=z3.Solver(); s.add(disj(m.a.nested_termlist)!=z3.And(disj(A1),disj(A2))); okA=s.check()!=z3.sat
    s=z3.Solver(); s.add(disj(m.g.nested_termlist)!=z3.And(disj(G1),disj(G2))); okG=s.check()!=z3.sat
    noempty=all(sat(conj(tl)) for tl in m.a.nested_termlist+m.g.nested_termlist)
    st[('merge',okA,okG,noempty)]+=1
    # le
    n1=NestedPolyhedra(G1,False); n2=NestedPolyhedra(G2,False)
    le=n1<=n2
    s=z3.Solver(); s.add(disj(G1), z3.Not(disj(G2))); cont=s.check()!=z3.sat
    st[('le',le,'exact',cont)]+=1
for k in sorted(st,key=str): print(k,st[k])
for k,v in ex.items(): print('EX',k); print('   ',v)
