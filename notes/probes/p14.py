from common import *
import json, tempfile, os, copy, collections, traceback
from pacti.utils import read_contracts_from_file, write_contracts_to_file
from pacti.terms.polyhedra.serializer import validate_contract_dict
from pacti.utils.errors import ContractFormatError
c=PolyhedralIoContract.from_strings(["i <= 2","-i <= 1"],["o - 2i <= 1","|o| <= 9"],["i"],["o"])
base={True: {'name':'c','type':'PolyhedralIoContract_machine','data':c.to_machine_dict()}, False:{'name':'c','type':'PolyhedralIoContract','data':c.to_dict()}}
WRONG=[None, 3, 2.5, "str", [], {}, [1], {"a":1}, True]
def paths(o, p=()):
    yield p
    if isinstance(o, dict):
        for k,v in o.items(): yield from paths(v, p+(k,))
    elif isinstance(o, list):
        for i,v in enumerate(o): yield from paths(v, p+(i,))
def setp(o,p,val,delete=False):
    o=copy.deepcopy(o); cur=o
    for k in p[:-1]: cur=cur[k]
    if delete: del cur[p[-1]]
    else: cur[p[-1]]=val
    return o
st=collections.Counter(); ex=collections.defaultdict(list)
for mach in (True,False):
    b=base[mach]
    for p in paths(b):
        if not p: continue
        muts=[('del',setp(b,p,None,True))]+[('set %r'%w, setp(b,p,w)) for w in WRONG]
        for desc,m in muts:
            fn=tempfile.mktemp()
            json.dump([m],open(fn,'w'))
            try:
                cs,ns=read_contracts_from_file(fn); out='returned'
                # is it "read as something else"? compare meaning
                same = (cs[0]==c and ns==['c'])
                out='returned-same' if same else 'returned-DIFFERENT'
            except (ContractFormatError,) as e: out='CFE'
            except ValueError as e: out='ValueError(%s)'%type(e).__name__
            except Exception as e: out='ESCAPE '+type(e).__name__
            os.unlink(fn)
            st[(mach,out)]+=1
            if out.startswith('ESCAPE') or out=='returned-DIFFERENT': ex[(mach,out)].append((p,desc))
for k in sorted(st,key=str): print(k,st[k])
for k,v in ex.items():
    print(k, len(v)); 
    for x in v[:14]: print('    ',x)
