from gen import *
import collections, traceback, copy as cp
rnd = random.Random(int(sys.argv[1])); N=int(sys.argv[2])
st=collections.Counter(); ex={}
def snap_tl(tl): return [ (tuple(sorted((v.name,a) for v,a in t.variables.items())), repr(t.constant)) for t in tl.terms]
def snap_c(c): return ([v.name for v in c.inputvars],[v.name for v in c.outputvars],snap_tl(c.a),snap_tl(c.g))
def scramble_tl(tl):
    for t in tl.terms:
        for v in list(t.variables): t.variables[v]=12345.0
        t.variables[Var('ZZ')]=1.0; t.constant=-999.0
    tl.terms.append(T({'QQ':1},1))
def scramble_c(c):
    scramble_tl(c.a); scramble_tl(c.g); c.inputvars.append(Var('II')); c.outputvars.append(Var('OO'))
for it in range(N):
    w,(i1,o1),(i2,o2)=rpair(rnd)
    try:
        c1=rcontract(rnd,i1,o1); c2=rcontract(rnd,i2,o2)
    except ValueError: continue
    ops={
     'compose': lambda: c1.compose(c2),
     'compose_ns': lambda: c1.compose(c2,[],False),
     'quotient': lambda: c1.quotient(c2),
     'quotient_ns': lambda: c1.quotient(c2,[],False),
     'merge': lambda: c1.merge(c2),
     'copy': lambda: c1.copy(),
     'rename': lambda: c1.rename_variable(c1.inputvars[0], Var('fresh')),
     'renames': lambda: c1.rename_variables([(c1.inputvars[0].name,'fresh')]),
     'fromdict': lambda: PolyhedralIoContract.from_dict(c1.to_machine_dict(), simplify=False),
     'fromstr': lambda: PolyhedralIoContract.from_strings(**{k:v for k,v in c1.to_dict().items()}, simplify=False),
    }
    name=rnd.choice(list(ops))
    s1,s2=snap_c(c1),snap_c(c2)
    try: r=ops[name]()
    except ValueError: st[(name,'VE')]+=1; r=None
    except Exception as e: st[(name,type(e).__name__)]+=1; r=None
    if (snap_c(c1),snap_c(c2))!=(s1,s2): st[(name,'MUTATED')]+=1; ex.setdefault((name,'mut'),(str(c1),str(c2)))
    if r is not None:
        scramble_c(r)
        if (snap_c(c1),snap_c(c2))!=(s1,s2): st[(name,'ALIASED')]+=1; ex.setdefault((name,'alias'),(s1,s2))
        else: st[(name,'ok')]+=1
    # termlist-level
    tl=c1.g; ctx=c2.g; sa,sb=snap_tl(tl),snap_tl(ctx)
    ev=[Var(v) for v in rnd.sample(o1+i1, 1)]
    tops={'refine': lambda: tl.elim_vars_by_refining(ctx,ev,simplify=False)[0], 'refine_s': lambda: tl.elim_vars_by_refining(ctx,ev)[0],
          'relax': lambda: tl.elim_vars_by_relaxing(ctx,ev,simplify=False)[0], 'relax_s': lambda: tl.elim_vars_by_relaxing(ctx,ev)[0],
          'simplify': lambda: tl.simplify(ctx), 'or': lambda: tl|ctx, 'sub': lambda: tl-ctx, 'and': lambda: tl&ctx, 'gtv': lambda: tl.get_terms_with_vars(ev), 'tlcopy': lambda: tl.copy(),
          'tlrename': lambda: tl.rename_variable(ev[0],Var('nn')), 'evaluate': lambda: tl.evaluate({ev[0]:1})}
    name=rnd.choice(list(tops))
    try: r=tops[name]()
    except ValueError: st[(name,'VE')]+=1; r=None
    except Exception as e: st[(name,type(e).__name__)]+=1; r=None
    if (snap_tl(tl),snap_tl(ctx))!=(sa,sb): st[(name,'MUTATED')]+=1
    if r is not None:
        scramble_tl(r)
        if (snap_tl(tl),snap_tl(ctx))!=(sa,sb): st[(name,'ALIASED')]+=1; ex.setdefault((name,'alias'),(sa,sb))
        else: st[(name,'ok')]+=1
for k in sorted(st,key=str): print(k,st[k])
