import sys, random, itertools, math
import os; SRC=os.environ.get('PACTI_SRC','/repo/src'); sys.path.insert(0, SRC)
import warnings; warnings.filterwarnings('ignore')
import pacti
assert pacti.__file__.startswith(SRC), pacti.__file__
from fractions import Fraction as F
from pacti.iocontract import Var
from pacti.terms.polyhedra import PolyhedralTerm, PolyhedralTermList
from pacti.contracts import PolyhedralIoContract
from pacti.utils.errors import IncompatibleArgsError
import z3

def T(coeffs, c):
    return PolyhedralTerm({Var(k): v for k, v in coeffs.items()}, c)
def TL(lst):
    return PolyhedralTermList([T(a, c) for a, c in lst])

_zv = {}
def zv(name):
    if name not in _zv: _zv[name] = z3.Real(name)
    return _zv[name]
def q(x):
    f = F(float(x))
    return z3.RatVal(f.numerator, f.denominator)
def lhs(t):
    e = z3.RealVal(0)
    for v, a in t.variables.items():
        e = e + q(a) * zv(v.name)
    return e
def holds(t, slack=0.0):
    return lhs(t) <= q(t.constant) + q(slack)
def conj(tl, slack=0.0):
    return z3.And([holds(t, slack) for t in tl.terms]) if tl.terms else z3.BoolVal(True)
def viol(t, rel=1e-4):
    return lhs(t) > q(t.constant) + q(rel * (1 + abs(t.constant)))
def box(names, B=1000):
    return z3.And([z3.And(zv(n) <= B, zv(n) >= -B) for n in names])
def find(hyps, concl_terms, names, rel=1e-4):
    """return (term, model) if some conclusion term can be violated under hyps in box"""
    for t in concl_terms:
        s = z3.Solver()
        s.add(box(names)); s.add(*hyps); s.add(viol(t, rel))
        if s.check() == z3.sat:
            m = s.model()
            return t, {n: m.eval(zv(n), model_completion=True) for n in names}
    return None

def equiv_tol(tl1, tl2, names, extra1=(), extra2=()):
    """tl1 (with extra hyps) => each term of tl2 within tol, and vice versa; returns None or description"""
    b = find([conj(tl1)]+list(extra1), tl2.terms, names)
    if b: return ('1=>2', b)
    b = find([conj(tl2)]+list(extra2), tl1.terms, names)
    if b: return ('2=>1', b)
    return None
