import sys, itertools, collections, os
sys.argv=[sys.argv[0],'1','0']
exec(open('/tmp/probe/p05.py').read().split("rnd=random.Random(int(sys.argv[1]))")[0])
class Det:
    log=[]
    def choice(self,tag,opts):
        return {'refines':True,'simp-raise':False,'simp-drop':False,'elim-raise':False,'elim-mode':'exact','extra':False}[tag]
import __main__
CH=Det()
st=collections.Counter(); ex={}
VS=['a','b','c','d']
ALLV=VS
def mk(ins,outs,am,gm):
    a=[FTerm([v],[(0,),(1,)]) for v in ins if am]       # mentions every input, semantically true
    g=[FTerm([v],[(0,),(1,)]) for v in (ins+outs if gm else [])]
    return IoContract(FTL(a),FTL(g),[Var(v) for v in ins],[Var(v) for v in outs],simplify=False)
def wf(c):
    gi=[v.name for v in c.inputvars]; go=[v.name for v in c.outputvars]
    return len(gi)==len(set(gi)) and len(go)==len(set(go)) and not set(gi)&set(go) and set(v.name for v in c.a.vars)<=set(gi) and set(v.name for v in c.g.vars)<=set(gi)|set(go)
n=0
for r1 in itertools.product('-io',repeat=4):
  for r2 in itertools.product('-io',repeat=4):
    i1=[v for v,r in zip(VS,r1) if r=='i']; o1=[v for v,r in zip(VS,r1) if r=='o']
    i2=[v for v,r in zip(VS,r2) if r=='i']; o2=[v for v,r in zip(VS,r2) if r=='o']
    for am in (0,1):
        top=mk(i1,o1,am,1); div=mk(i2,o2,am,1)
        legal=[v for v in o2+i1]
        for addl in ([], legal[:1], ['zz']):
            if addl==legal[:1] and not legal: continue
            n+=1
            bad_io = bool((set(o1)-set(o2))&set(i2))
            bad_addl = bool(set(addl)-set(o2)-set(i1))
            meaningless = bad_io or bad_addl
            try: qc=top.quotient(div,[Var(v) for v in addl])
            except IncompatibleArgsError:
                st[('quot','IAE','meaningless' if meaningless else 'MEANINGFUL')]+=1
                if not meaningless: ex.setdefault('q-iae-meaningful',(str(top),str(div),addl))
                continue
            except Exception as e: st[('quot',type(e).__name__)]+=1; ex.setdefault(('q',type(e).__name__),(str(top),str(div),addl)); continue
            if meaningless: st[('quot','RETURNED-meaningless')]+=1; ex.setdefault('q-ret-meaningless',(str(top),str(div),addl,str(qc))); continue
            ei=(set(i1)-set(i2))|(set(o2)-set(o1))|set(addl); eo=(set(o1)-set(o2))|(set(i2)-set(i1))
            ok=set(v.name for v in qc.inputvars)==ei and set(v.name for v in qc.outputvars)==eo and wf(qc)
            st[('quot','ret',ok)]+=1
            if not ok: ex.setdefault('q-bad',(str(top),str(div),addl,str(qc)))
        # merge
        try:
            m=top.merge(div)
            ei=set(i1)|set(i2); eo=set(o1)|set(o2)
            ok=set(v.name for v in m.inputvars)==ei and set(v.name for v in m.outputvars)==eo and wf(m)
            st[('merge','ret',ok, bool(ei&eo))]+=1
        except IncompatibleArgsError: st[('merge','IAE', bool((set(i1)|set(i2))&(set(o1)|set(o2))))]+=1
print(n)
for k in sorted(st,key=str): print(k,st[k])
for k,v in ex.items(): print('EX',k); [print('   ',x) for x in v]
