from gen import *
import collections, traceback
rnd = random.Random(int(sys.argv[1])); N=int(sys.argv[2])
patch = sys.argv[3] if len(sys.argv)>3 else ''
if patch: __import__(patch)
st=collections.Counter(); ex={}
for it in range(N):
    mode=rnd.choice(['rand','built'])
    try:
        if mode=='built':
            w,(i1,o1),(i2,o2)=rpair(rnd, rnd.choice(['cascade12','cascade21','shared_in','indep']))
            c1=rcontract(rnd,i1,o1); h=rcontract(rnd,i2,o2)
            top=c1.compose(h)
        else:
            # top: inputs subset, outputs; c1 shares some
            ti=['i','j'][:rnd.randint(1,2)]; to=['o','p'][:rnd.randint(1,2)]
            c1i=rnd.sample(ti+['k'], rnd.randint(1,2)); c1o=rnd.sample(to+['m','n'], rnd.randint(1,2))
            top=rcontract(rnd,ti,to); c1=rcontract(rnd,c1i,c1o); w='rand'
    except ValueError as e:
        st[('construct',type(e).__name__)]+=1; continue
    cand=[v.name for v in c1.outputvars+top.inputvars]
    addl=[Var(v) for v in cand if rnd.random()<0.2]
    order=rnd.choice([None,[1],[2],[3],[4],[5],[1,2,3,4,5],[5,4,3,2,1]])
    simp=rnd.random()<0.7
    try:
        qc,stats=top.quotient_tactics(c1, addl, simp, order)
    except IncompatibleArgsError as e:
        st[(w,'IAE')]+=1; continue
    except ValueError as e:
        st[(w,'VE')]+=1; continue
    except Exception as e:
        st[(w,type(e).__name__)]+=1; ex.setdefault((w,type(e).__name__),(str(top),str(c1),addl,order,simp,traceback.format_exc().splitlines()[-3:])); continue
    names=sorted(set(v.name for v in top.vars+c1.vars+qc.vars))
    hyps=[conj(top.a), z3.Implies(conj(c1.a,1e-7), conj(c1.g)), z3.Implies(conj(qc.a,1e-7), conj(qc.g))]
    bad=find(hyps, c1.a.terms+qc.a.terms+top.g.terms, names)
    used=tuple(sorted(set(s[0] for ss in stats for s in ss)))
    if bad:
        st[(w,'UNSOUND',tuple(order) if order else None)]+=1
        ex.setdefault((w,'UNSOUND',used),(str(top),str(c1),addl,order,simp,str(qc),str(bad)))
    else: st[(w,'ok')]+=1
for k in sorted(st,key=str): print(k,st[k])
for k,v in ex.items():
    print('EX',k);
    for x in v: print('   ',x)
