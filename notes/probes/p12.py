from common import *
import collections
rnd = random.Random(int(sys.argv[1])); N=int(sys.argv[2])
names=['a','b','c','d','e']
def rterm(pool,kmax=3):
    k=rnd.randint(1,min(kmax,len(pool))); vs=rnd.sample(pool,k)
    return ({v:rnd.choice([-3,-2,-1,1,2,3]) for v in vs}, rnd.randint(-5,5))
st=collections.Counter(); ex={}
for it in range(N):
    nv=rnd.randint(1,5); pool=names[:nv]
    tl=TL([rterm(pool) for _ in range(rnd.randint(1,6))])
    k=rnd.randint(1,min(3,nv)); ov=rnd.sample(pool,k)
    obj={Var(v):rnd.choice([-3,-2,-1,1,2,3]) for v in ov}
    mx=rnd.random()<0.5
    # exact
    o=z3.Optimize(); o.add(conj(tl))
    e=z3.Sum([q(c)*zv(v.name) for v,c in obj.items()])
    if z3.Solver().check()==z3.sat: pass
    s=z3.Solver(); s.add(conj(tl))
    if s.check()!=z3.sat: exact='infeasible'
    else:
        h = o.maximize(e) if mx else o.minimize(e)
        o.check()
        val = o.upper(h) if mx else o.lower(h)
        exact = 'unbounded' if str(val) in ('oo','-1*oo') else float(F(str(val)))
    try:
        got=tl.optimize(obj, maximize=mx)
        gk = 'None' if got is None else 'val'
    except ValueError as ee:
        got='VE'; gk='ValueError'
    except Exception as ee:
        got=type(ee).__name__; gk=got
    ek = exact if isinstance(exact,str) else 'val'
    agree = (ek,gk) in [('infeasible','ValueError'),('unbounded','None')] or (ek=='val' and gk=='val' and abs(got-exact)<=1e-6*(1+abs(exact)))
    st[(ek,gk,agree)]+=1
    if not agree: ex.setdefault((ek,gk),(str(tl),str(obj),mx,exact,got))
for k in sorted(st,key=str): print(k,st[k])
for k,v in ex.items(): print('EX',k,v)
