from common import *
import collections
from pacti.terms.polyhedra.serializer import polyhedral_termlist_from_string as P
from pacti.utils.errors import PolyhedralSyntaxConvexException, PolyhedralSyntaxException
rnd = random.Random(int(sys.argv[1])); N=int(sys.argv[2])
VARS=['x','y','z','w']
def num(): 
    v=rnd.choice([1,2,3,4,0.5,0.25,1.5,8]); 
    s=rnd.choice([str(v), repr(float(v)), ('%g'%v)])
    if v==int(v) and rnd.random()<0.2:
        a=rnd.randint(1,3); s='(%d+%d)'%(a,int(v)-a) if int(v)-a>=0 else s
    return s, F(v)
def sp(): return rnd.choice(['',' '])
# returns (string, z3expr, has_abs)
def gen_terms(depth):
    n=rnd.randint(1,3); parts=[]; e=z3.RealVal(0)
    for i in range(n):
        sign=rnd.choice(['+','-'])
        k=rnd.choice(['v','nv','n','p','np'] if depth>0 else ['v','nv','n'])
        if k=='v': v=rnd.choice(VARS); s=v; ex=zv(v)
        elif k=='nv': c,cv=num(); v=rnd.choice(VARS); s=c+rnd.choice(['','*',' ',' * '])+v; ex=q(float(cv))*zv(v)
        elif k=='n': c,cv=num(); s=c; ex=q(float(cv))
        elif k=='p': s0,e0=gen_terms(depth-1); s='('+s0+')'; ex=e0
        else: c,cv=num(); s0,e0=gen_terms(depth-1); s=c+rnd.choice(['','*'])+'('+s0+')'; ex=q(float(cv))*e0
        if i==0 and sign=='+' and rnd.random()<0.7: parts.append(s)
        else: parts.append(sign+sp()+s)
        e = e+ex if sign=='+' else e-ex
    return (sp()).join(parts) if False else ' '.join(parts), e
def zabs(e): return z3.If(e>=0,e,-e)
def gen_side(depth, allow_abs=True):
    n=rnd.randint(1,3); parts=[]; e=z3.RealVal(0); hasabs=False
    for i in range(n):
        sign=rnd.choice(['+','+','-'])
        k=rnd.choice(['t','t','a','ca','pa'] if allow_abs else ['t'])
        if k=='t':
            s0,e0=gen_terms(depth); 
            # single first_term or signed_term: wrap multi-term in parens
            s='('+s0+')' if ' ' in s0 else s0; ex=e0
            if s0.startswith(('+','-')): s='('+s0+')'
        elif k=='a': s0,e0=gen_terms(depth); s='|'+s0+'|'; ex=zabs(e0); hasabs=True
        elif k=='ca': c,cv=num(); s0,e0=gen_terms(depth); s=c+rnd.choice(['','*',' '])+'|'+s0+'|'; ex=q(float(cv))*zabs(e0); hasabs=True
        else:
            c,cv=num(); s1,e1,_=gen_side(0, True) if depth>0 else (None,None,None)
            if s1 is None: s0,e0=gen_terms(0); s='|'+s0+'|'; ex=zabs(e0)
            else: s=c+'('+s1+')'; ex=q(float(cv))*e1
            hasabs=True
        if i==0 and sign=='+': parts.append(s)
        else: parts.append(sign+' '+s)
        e = e+ex if sign=='+' else e-ex
    return ' '.join(parts), e, hasabs
st=collections.Counter(); ex={}
for it in range(N):
    op=rnd.choice(['<=','<=','>=','=','=='])
    if op in ('=','=='):
        l,le=gen_terms(2); r,re_=gen_terms(2); s=l+' '+op+' '+r; rel=(le==re_); ha=False
    else:
        k=rnd.randint(2,3); sides=[gen_side(2) for _ in range(k)]
        s=(' '+op+' ').join(x[0] for x in sides); ha=any(x[2] for x in sides)
        rel=z3.And([ (sides[i][1]<=sides[i+1][1]) if op=='<=' else (sides[i][1]>=sides[i+1][1]) for i in range(k-1)])
    try:
        r=P(s)
    except PolyhedralSyntaxConvexException: st[('convex-exc',ha)]+=1; continue
    except PolyhedralSyntaxException as e: st['syntax-exc']+=1; ex.setdefault('syntax',[]).append(s); continue
    except Exception as e: st[type(e).__name__]+=1; ex.setdefault(type(e).__name__,[]).append(s); continue
    parsed=z3.And([holds(t) for t in r]) if r else z3.BoolVal(True)
    sv=z3.Solver(); sv.add(parsed!=rel)
    if sv.check()==z3.sat:
        st[('MISMATCH',ha)]+=1; ex.setdefault('mismatch',[]).append((s,[str(t) for t in r]))
    else: st[('ok',ha)]+=1
for k in sorted(st,key=str): print(k,st[k])
for k,v in ex.items():
    print('EX',k)
    for x in v[:12]: print('   ',x)
