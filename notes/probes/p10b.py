from gen import *
import collections, tempfile, os, traceback
from pacti.utils import read_contracts_from_file, write_contracts_to_file
rnd = random.Random(int(sys.argv[1])); N=int(sys.argv[2])
st=collections.Counter(); ex={}
def r4(x): return float('%.4g'%x)
def rnum():
    k=rnd.choice(['int','dec','float','big','small'])
    v={'int':rnd.randint(1,20),'dec':float('%.4g'%rnd.uniform(0.01,100)),'float':rnd.uniform(0.001,1000),'big':rnd.uniform(1e4,1e6),'small':rnd.uniform(1e-4,1e-2)}[k]
    return v*rnd.choice([1,-1])
def snap_tl(tl): return [ (tuple(sorted((v.name,a) for v,a in t.variables.items())), repr(t.constant)) for t in tl.terms]
def snap_c(c): return ([v.name for v in c.inputvars],[v.name for v in c.outputvars],snap_tl(c.a),snap_tl(c.g))
def equivf(f1,f2):
    s=z3.Solver(); s.add(f1!=f2); return s.check()!=z3.sat
NAMES=['e','E1','x_1','inf','nan','o_p','i','j']
for it in range(N):
    names=rnd.sample(NAMES,4); ins=names[:2]; outs=names[2:]
    w={v:rnd.randint(-3,3) for v in names}
    def rt(pool):
        vs=rnd.sample(pool,rnd.randint(1,min(3,len(pool)))); co={v:rnum() for v in vs}
        c=sum(co[v]*w[v] for v in vs)+abs(rnum())*rnd.choice([1,2])+0.5
        return T(co,c)
    a=[rt(ins) for _ in range(rnd.randint(0,2))]; g=[rt(ins+outs) for _ in range(rnd.randint(1,3))]
    if rnd.random()<0.5:
        t=rnd.choice(g); g.append(PolyhedralTerm({v:-x for v,x in t.variables.items()}, t.constant if rnd.random()<0.5 else -t.constant+abs(rnum())))
    try: c=PolyhedralIoContract(PolyhedralTermList(a),PolyhedralTermList(g),[Var(v) for v in ins],[Var(v) for v in outs])
    except ValueError: st['construct']+=1; continue
    # (a)
    c2=PolyhedralIoContract.from_dict(c.to_machine_dict(), simplify=False)
    st[('dict-exact', snap_c(c2)==snap_c(c) and c2==c)]+=1
    fn=tempfile.mktemp()
    for mach in (True,False):
        try:
            write_contracts_to_file([c],['nm'],fn,machine_representation=mach)
            cs,ns=read_contracts_from_file(fn)
        except Exception as e:
            st[('file',mach,type(e).__name__)]+=1; ex.setdefault(('file',mach,type(e).__name__),(str(c),traceback.format_exc().splitlines()[-1])); continue
        r=cs[0]
        okI=[v.name for v in r.inputvars]==ins and [v.name for v in r.outputvars]==outs and ns==['nm']
        if mach:
            okM=equivf(conj(r.a),conj(c.a)) and equivf(z3.And(conj(r.a),conj(r.g)),z3.And(conj(c.a),conj(c.g)))
        else:
            ra=PolyhedralTermList([PolyhedralTerm({v:r4(x) for v,x in t.variables.items()}, r4(t.constant)) for t in c.a.terms])
            rg=PolyhedralTermList([PolyhedralTerm({v:r4(x) for v,x in t.variables.items()}, r4(t.constant)) for t in c.g.terms])
            okM=(equiv_tol(r.a,ra,names) is None) and (equiv_tol(r.a|r.g, ra|rg, names) is None)
        st[('file',mach,okI,okM)]+=1
        if not(okI and okM): ex.setdefault(('file',mach,okI,okM),(str(c),str(r)))
    os.unlink(fn)
for k in sorted(st,key=str): print(k,st[k])
for k,v in ex.items(): print('EX',k); [print('   ',x) for x in v]
