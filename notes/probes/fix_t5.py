from common import *
import fix_t4
import numpy as np
from scipy.optimize import linprog
from pacti.utils.lists import list_intersection, list_union
_orig_cr = PolyhedralTermList._context_reduction
def _context_reduction(term, context, vars_to_elim, refine, strategy):
    try:
        result = _orig_cr(term, context, vars_to_elim, refine, strategy)
    except AssertionError:
        raise ValueError("decline")
    if strategy == 5:
        # verify: refine: context => term.lhs - term.c <= result.lhs - result.c ; relax: opposite
        diff = term + result.multiply(-1)   # (t - r).lhs <= t.c - r.c
        if not refine:
            diff = diff.multiply(-1)
        if not diff.vars:
            ok = diff.constant >= -1e-9
        else:
            variables, a, b, obj, _ = PolyhedralTermList.termlist_to_polytope(context, PolyhedralTermList([diff]))
            res = linprog(c=-1*obj[0], A_ub=a, b_ub=b, bounds=(None,None))
            ok = res["status"] == 0 and -res["fun"] <= diff.constant + 1e-9
        if not ok:
            raise ValueError("Tactic 5 result could not be validated")
    return result
PolyhedralTermList._context_reduction = staticmethod(_context_reduction)
