from gen import *
import collections
rnd = random.Random(int(sys.argv[1])); N=int(sys.argv[2])
st=collections.Counter(); ex={}
names=['a','b','c','d']
for it in range(N):
    nv=rnd.randint(1,4); pool=names[:nv]
    tl=PolyhedralTermList([rterm(rnd,pool) for _ in range(rnd.randint(1,5))])
    if rnd.random()<0.3:
        # thin: add opposite of a term with constant -c +/- margin
        t=rnd.choice(tl.terms); m=rnd.choice([1e-3,-1e-3,0,0.01,-0.01])
        tl=PolyhedralTermList(tl.terms+[PolyhedralTerm({v:-a for v,a in t.variables.items()}, -t.constant+m)])
    s=z3.Solver(); s.add(conj(tl)); feas=s.check()==z3.sat
    try: got=tl.is_empty()
    except Exception as e: st[('is_empty',type(e).__name__)]+=1; continue
    st[('empty exact',not feas,'got',got)]+=1
    if got==feas: ex.setdefault(('empty',got),str(tl))
    # behaviors
    pt={Var(v):rnd.randint(-16,16)/4 for v in pool}
    exact=all(sum(F(a)*F(pt[v]) for v,a in t.variables.items())<=F(t.constant) for t in tl.terms)
    got=tl.contains_behavior(pt)
    st[('beh',exact,got)]+=1
for k in sorted(st,key=str): print(k,st[k])
for k,v in ex.items(): print('EX',k,v)
