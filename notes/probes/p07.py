from gen import *
import collections, traceback
rnd = random.Random(int(sys.argv[1])); N=int(sys.argv[2])
st=collections.Counter(); ex={}
names=['a','b','c','d','e']
def sat(*fs):
    s=z3.Solver(); s.add(*fs); return s.check()==z3.sat
for it in range(N):
    nv=rnd.randint(1,5); pool=names[:nv]
    tl=[rterm(rnd,pool) for _ in range(rnd.randint(1,6))]
    # plant redundancies
    for _ in range(rnd.randint(0,2)):
        k=rnd.choice(['dup','scale','combo','loose'])
        if k=='dup': tl.append(rnd.choice(tl).copy())
        elif k=='scale': tl.append(rnd.choice(tl).multiply(rnd.choice([2,3,0.5])))
        elif k=='loose':
            t=rnd.choice(tl); tl.append(PolyhedralTerm(t.variables, t.constant+rnd.choice([0,1,2])))
        else:
            t=rnd.choice(tl)+rnd.choice(tl); 
            if t.vars: tl.append(t)
    rnd.shuffle(tl)
    tl=PolyhedralTermList(tl)
    ctx=PolyhedralTermList([rterm(rnd,pool) for _ in range(rnd.randint(0,3))]) if rnd.random()<0.6 else None
    cx = ctx if ctx is not None else PolyhedralTermList([])
    feas=sat(conj(tl),conj(cx))
    try:
        r=tl.simplify(ctx) if ctx is not None else tl.simplify()
    except ValueError as e:
        st[('VE','feas' if feas else 'infeas')]+=1
        if feas: ex.setdefault('VE-feas',(str(tl),str(ctx)))
        continue
    except Exception as e:
        st[type(e).__name__]+=1; ex.setdefault(type(e).__name__,(str(tl),str(ctx),traceback.format_exc().splitlines()[-3:])); continue
    if not feas:
        st['infeas-returned']+=1; 
        # still check? skip
    # selection
    sel=all(any(t==o for o in tl.terms) for t in r.terms)
    # equivalence in context: ctx & r => tl  (other direction trivial if selection)
    bad=find([conj(cx),conj(r)], tl.terms, pool)
    # irredundant by margin: no term of r implied by others+ctx with margin
    red=None
    for i,t in enumerate(r.terms):
        others=PolyhedralTermList(r.terms[:i]+r.terms[i+1:])
        # droppable if max t.lhs over others&ctx <= c - margin
        m=1e-4*(1+abs(t.constant))
        if not sat(conj(cx),conj(others), lhs(t) > q(t.constant) - q(m)):
            red=t; break
    key=('sel',sel,'equiv',bad is None,'irred',red is None, 'feas',feas)
    st[key]+=1
    if not sel or bad or red is not None: ex.setdefault(key,(str(tl),str(ctx),str(r),str(bad),str(red)))
for k in sorted(st,key=str): print(k,st[k])
for k,v in ex.items():
    print('EX',k);
    for x in v: print('   ',x)
