from common import *
import fix_iso
from pacti.utils.lists import list_intersection
from typing import List
def _tactic_4(term, context, vars_to_elim, refine, no_vars):
    if not refine:
        raise ValueError("Only refinement is supported")
    conflict_vars = list_intersection(vars_to_elim, term.vars)
    if len(conflict_vars) > 1:
        raise ValueError("Tactic 4 unsuccessful")
    var_to_elim = conflict_vars[0]
    goal_context = []; useful_context = []
    polarity = 1
    for context_term in context.terms:
        if list_intersection(context_term.vars, no_vars):
            continue
        coeff = context_term.get_coefficient(var_to_elim)
        if coeff != 0 and polarity * coeff * term.get_coefficient(var_to_elim) > 0:
            temp_conflict_vars = list_intersection(context_term.vars, vars_to_elim)
            if len(temp_conflict_vars) == 1:
                goal_context.append(context_term.copy())
            if len(temp_conflict_vars) == 2:
                useful_context.append(context_term.copy())
    if not useful_context and not goal_context:
        raise ValueError("Tactic 4 unsuccessful")
    total_calls = 1
    if goal_context:
        return term.substitute_variable(var_to_elim, goal_context[0].isolate_variable(var_to_elim)), total_calls
    sign = 1 if term.get_coefficient(var_to_elim) > 0 else -1
    for useful_term in useful_context:
        new_context = context.copy()
        new_context.terms.remove(useful_term)
        new_term = useful_term.isolate_variable(var_to_elim).multiply(sign)
        new_no_vars = no_vars.copy()
        new_no_vars.append(var_to_elim)
        try:
            return_term, recursive_count = PolyhedralTermList._tactic_4(new_term, new_context, vars_to_elim, refine, new_no_vars)
            total_calls += recursive_count
            if return_term is None:
                continue
            return term.substitute_variable(var_to_elim, return_term.multiply(sign)), total_calls
        except ValueError:
            total_calls += 1
    return None, total_calls
PolyhedralTermList._tactic_4 = staticmethod(_tactic_4)
