from common import *
import collections, traceback
rnd = random.Random(int(sys.argv[1]) if len(sys.argv)>1 else 1)
N = int(sys.argv[2]) if len(sys.argv)>2 else 2000
names = ['a','b','c','x','y','z']
def rterm(vars_pool, kmax=3):
    k = rnd.randint(1, min(kmax, len(vars_pool)))
    vs = rnd.sample(vars_pool, k)
    return ({v: rnd.choice([-3,-2,-1,1,2,3]) for v in vs}, rnd.randint(-5,5))
stats = collections.Counter()
examples = {}
for it in range(N):
    nv = rnd.randint(2,5)
    pool = names[:nv]
    nel = rnd.randint(1, min(3,nv-1))
    elim = rnd.sample(pool, nel)
    terms = TL([rterm(pool) for _ in range(rnd.randint(1,3))])
    ctx = TL([rterm(pool) for _ in range(rnd.randint(0,4))])
    refine = rnd.random()<0.5
    order = rnd.choice([[1],[2],[3],[4],[5],[1,2,3,4,5]])
    simp = rnd.random()<0.5
    key = ('refine' if refine else 'relax', tuple(order))
    ev = [Var(v) for v in elim]
    try:
        if refine:
            res, st = terms.elim_vars_by_refining(ctx, ev, simplify=simp, tactics_order=list(order))
        else:
            res, st = terms.elim_vars_by_relaxing(ctx, ev, simplify=simp, tactics_order=list(order))
    except ValueError as e:
        stats[key+('ValueError',)] += 1; continue
    except Exception as e:
        stats[key+(type(e).__name__,)] += 1
        examples.setdefault(key+(type(e).__name__,), (str(terms), str(ctx), elim, simp, traceback.format_exc().splitlines()[-3:]))
        continue
    used = tuple(sorted(set(s[0] for s in st)))
    if refine:
        bad = find([conj(ctx), conj(res)], terms.terms, pool)
    else:
        bad = find([conj(ctx), conj(terms)], res.terms, pool)
        if set(v.name for v in res.vars) & set(elim):
            stats[key+('LEFTOVER',)] += 1
    if bad:
        stats[key+('UNSOUND',used)] += 1
        examples.setdefault(key+('UNSOUND',used), (str(terms), str(ctx), elim, simp, str(res), str(bad)))
    else:
        stats[key+('ok',)] += 1
for k in sorted(stats, key=str): print(k, stats[k])
for k,v in examples.items(): print('EX', k, v)
