from common import *
import collections, traceback
from pacti.terms.polyhedra.serializer import polyhedral_termlist_from_string as P
rnd = random.Random(int(sys.argv[1])); N=int(sys.argv[2])
st=collections.Counter(); ex={}
VARS=['x','y','z','w']
def rnum():
    k=rnd.choice(['int','dec','float','big','small'])
    if k=='int': v=rnd.randint(1,20)
    elif k=='dec': v=float('%.4g'%rnd.uniform(0.01,100))
    elif k=='float': v=rnd.uniform(0.001,1000)
    elif k=='big': v=rnd.uniform(1e4,1e6)
    else: v=rnd.uniform(1e-4,1e-2)
    return v*rnd.choice([1,-1])
def r4(x): return float('%.4g'%x)
def rt():
    vs=rnd.sample(VARS, rnd.randint(1,3))
    return PolyhedralTerm({Var(v):rnum() for v in vs}, rnum() if rnd.random()<0.8 else 0)
for it in range(N):
    ts=[rt() for _ in range(rnd.randint(1,4))]
    # add opposite pairs
    for _ in range(rnd.randint(0,2)):
        t=rnd.choice(ts); k=rnd.choice(['eq','abs','unrel','zero'])
        c={'eq':-t.constant,'abs':t.constant,'unrel':rnum(),'zero':0}[k]
        o=PolyhedralTerm({v:-a for v,a in t.variables.items()}, c)
        if k=='zero': ts[ts.index(t)]=PolyhedralTerm(t.variables,0)
        ts.insert(rnd.randint(0,len(ts)),o)
    tl=PolyhedralTermList(ts)
    try:
        strs=tl.to_str_list()
        back=[t for s in strs for t in P(s)]
    except Exception as e:
        st[type(e).__name__]+=1; ex.setdefault(type(e).__name__,[]).append((str([str(t) for t in ts]), traceback.format_exc().splitlines()[-1])); continue
    # expected meaning: each original term with numbers rounded to 4 sig
    exp=[PolyhedralTerm({v:r4(a) for v,a in t.variables.items()}, r4(t.constant)) for t in ts]
    e1=z3.And([holds(t) for t in exp]); e2=z3.And([holds(t) for t in back]) if back else z3.BoolVal(True)
    s=z3.Solver(); s.add(e1!=e2)
    if s.check()==z3.sat:
        st['MISMATCH']+=1; ex.setdefault('mismatch',[]).append(([str(t) for t in ts], strs, [str(t) for t in back]))
    else: st['ok']+=1
for k in sorted(st,key=str): print(k,st[k])
for k,v in ex.items():
    print('EX',k)
    for x in v[:8]: print('   ',x)
