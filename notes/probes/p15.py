from gen import *
import collections, traceback
rnd = random.Random(int(sys.argv[1])); N=int(sys.argv[2])
patch = sys.argv[3] if len(sys.argv)>3 else ''
if patch: __import__(patch)
st=collections.Counter(); ex={}
for it in range(N):
    w,(i1,o1),(i2,o2)=rpair(rnd)
    try:
        c1=rcontract(rnd,i1,o1); c2=rcontract(rnd,i2,o2)
        # plant overlap: add an interface-level shared-input term to both guarantees
        shared=[v for v in i1 if v in i2]
        if shared and rnd.random()<0.7:
            t=rterm(rnd, shared)
            k=rnd.choice(['same','scaled','implied'])
            t2 = t.copy() if k=='same' else (t.multiply(2) if k=='scaled' else PolyhedralTerm(t.variables,t.constant+1))
            c1=PolyhedralIoContract(c1.a, c1.g|PolyhedralTermList([t]), c1.inputvars, c1.outputvars)
            c2=PolyhedralIoContract(c2.a, c2.g|PolyhedralTermList([t2]), c2.inputvars, c2.outputvars)
            w=w+'+'+k
    except ValueError as e:
        st[('construct',type(e).__name__)]+=1; continue
    simp=rnd.random()<0.7
    try:
        c=c1.compose(c2, [], simp)
    except ValueError as e:
        st[(w,'VE')]+=1; continue
    except Exception as e:
        st[(w,type(e).__name__)]+=1; continue
    iface=set(v.name for v in c.vars)
    names=sorted(set(i1+o1+i2+o2))
    cands=[t for t in c1.g.terms+c2.g.terms if set(v.name for v in t.vars)<=iface]
    bad=find([conj(c.a),conj(c.g)], cands, names)
    if bad:
        st[(w,'FORGOT')]+=1; ex.setdefault((w,'FORGOT'),(str(c1),str(c2),simp,str(c),str(bad)))
    else: st[(w,'ok',len(cands)>0)]+=1
for k in sorted(st,key=str): print(k,st[k])
for k,v in list(ex.items())[:4]:
    print('EX',k);
    for x in v: print('   ',x)
