from gen import *
import collections
rnd = random.Random(int(sys.argv[1])); N=int(sys.argv[2])
st=collections.Counter(); ex={}
def sub_tl(tl, src, dst):
    # reference substitution
    out=[]
    for t in tl.terms:
        d={}
        for v,a in t.variables.items():
            n = dst if v.name==src else v.name
            d[n]=d.get(n,0)+a
        out.append(T(d,t.constant))
    return PolyhedralTermList(out)
def equiv(f1,f2):
    s=z3.Solver(); s.add(f1!=f2); return s.check()!=z3.sat
for it in range(N):
    ins=['i','j','k'][:rnd.randint(1,3)]; outs=['o','p'][:rnd.randint(1,2)]
    try: c=rcontract(rnd,ins,outs,na=(0,3),ng=(1,4))
    except ValueError: st['construct']+=1; continue
    src=rnd.choice(ins+outs+['absent']); kind=rnd.choice(['fresh','in','out','same'])
    dst={'fresh':'fresh','in':rnd.choice(ins),'out':rnd.choice(outs),'same':src}[kind]
    srck='in' if src in ins else 'out' if src in outs else 'absent'
    key=(srck,kind if dst!=src else 'same')
    try: r=c.rename_variable(Var(src),Var(dst))
    except IncompatibleArgsError: 
        exp_err = (srck=='in' and dst in outs) or (srck=='out' and dst in ins)
        st[key+('IAE','expected' if exp_err else 'UNEXPECTED')]+=1; continue
    except ValueError as e:
        # infeasible after merging?
        st[key+('VE',)]+=1; continue
    except Exception as e: st[key+(type(e).__name__,)]+=1; continue
    if (srck=='in' and dst in outs) or (srck=='out' and dst in ins): st[key+('MISSING-IAE',)]+=1; continue
    ea=sub_tl(c.a,src,dst) if srck!='absent' else c.a; eg=sub_tl(c.g,src,dst) if srck!='absent' else c.g
    okA=equiv(conj(r.a),conj(ea)); okG=equiv(z3.And(conj(r.a),conj(r.g)),z3.And(conj(ea),conj(eg)))
    ei=[dst if v==src else v for v in ins]; ei=[v for n,v in enumerate(ei) if v not in ei[:n]]
    eo=[dst if v==src else v for v in outs]; eo=[v for n,v in enumerate(eo) if v not in eo[:n]]
    okI=sorted(v.name for v in r.inputvars)==sorted(ei) and sorted(v.name for v in r.outputvars)==sorted(eo)
    st[key+(okA,okG,okI)]+=1
    if not(okA and okG and okI): ex.setdefault(key,(str(c),src,dst,str(r)))
for k in sorted(st,key=str): print(k,st[k])
for k,v in ex.items(): print('EX',k); [print('   ',x) for x in v]
