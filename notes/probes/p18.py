from gen import *
import collections, traceback, os
os.environ['MPLBACKEND']='Agg'
from pacti.utils.plots import constraints_to_vertices
rnd = random.Random(int(sys.argv[1])); N=int(sys.argv[2])
st=collections.Counter(); ex={}
def exact_vertices(hs):
    # hs: list of (a,b,c) a x + b y <= c  Fractions
    pts=set()
    for i in range(len(hs)):
        for j in range(i+1,len(hs)):
            a1,b1,c1=hs[i]; a2,b2,c2=hs[j]; d=a1*b2-a2*b1
            if d==0: continue
            x=(c1*b2-c2*b1)/d; y=(a1*c2-a2*c1)/d
            if all(a*x+b*y<=c for a,b,c in hs): pts.add((x,y))
    feas = bool(pts)
    return pts
for it in range(N):
    nv=rnd.randint(2,4); pool=['x','y','u','v'][:nv]
    tl=PolyhedralTermList([rterm(rnd,pool,kmax=3) for _ in range(rnd.randint(1,4))])
    vals={Var(v):rnd.randint(-3,3) for v in pool[2:]}
    xl=sorted(rnd.sample(range(-5,6),2)); yl=sorted(rnd.sample(range(-5,6),2))
    hs=[]
    ok=True
    for t in tl.terms:
        a=F(t.get_coefficient(Var('x'))); b=F(t.get_coefficient(Var('y'))); c=F(t.constant)-sum(F(t.get_coefficient(v))*vals[v] for v in vals)
        hs.append((a,b,c))
    hs += [(F(1),F(0),F(xl[1])),(F(-1),F(0),F(-xl[0])),(F(0),F(1),F(yl[1])),(F(0),F(-1),F(-yl[0]))]
    # constant-only infeasible
    if any(a==0 and b==0 and c<0 for a,b,c in hs): exp=set()
    else: exp=exact_vertices([h for h in hs if not (h[0]==0 and h[1]==0)])
    try:
        xs,ys=constraints_to_vertices(tl,Var('x'),Var('y'),vals,tuple(xl),tuple(yl))
        got=list(zip(xs,ys))
    except ValueError as e:
        st[('VE', 'exp_empty' if not exp else 'exp_%d'%len(exp))]+=1
        if exp: ex.setdefault('VE-nonempty',[]).append((str(tl),vals,xl,yl,sorted(map(lambda p:(float(p[0]),float(p[1])),exp)), str(e)))
        continue
    except Exception as e:
        st[type(e).__name__]+=1; ex.setdefault(type(e).__name__,[]).append((str(tl),vals,xl,yl,traceback.format_exc().splitlines()[-2:])); continue
    ded=[]
    for p in got:
        if not any(abs(p[0]-q_[0])<1e-6 and abs(p[1]-q_[1])<1e-6 for q_ in ded): ded.append(p)
    match = len(ded)==len(exp) and all(any(abs(p[0]-float(e[0]))<1e-6 and abs(p[1]-float(e[1]))<1e-6 for p in ded) for e in exp)
    st[('match',match,len(exp))]+=1
    if not match: ex.setdefault('mismatch',[]).append((str(tl),vals,xl,yl,got,sorted(map(lambda p:(float(p[0]),float(p[1])),exp))))
for k in sorted(st,key=str): print(k,st[k])
for k,v in ex.items():
    print('EX',k)
    for x in v[:5]: print('   ',x)
