from common import *
import collections
rnd = random.Random(int(sys.argv[1])); N=int(sys.argv[2])
names=['a','b','c','d']
def rterm(pool,kmax=3):
    k=rnd.randint(1,min(kmax,len(pool))); vs=rnd.sample(pool,k)
    return ({v:rnd.choice([-3,-2,-1,1,2,3]) for v in vs}, rnd.randint(-5,5))
st=collections.Counter(); ex={}
def feasible(tl, pool):
    s=z3.Solver(); s.add(conj(tl)); return s.check()==z3.sat
def contained(l, r, pool, margin=0):
    # exact: l subset r
    for t in r.terms:
        s=z3.Solver(); s.add(conj(l)); s.add(lhs(t) > q(t.constant)+margin)
        if s.check()==z3.sat: return False
    return True
for it in range(N):
    nv=rnd.randint(1,4); pool=names[:nv]
    l=TL([rterm(pool) for _ in range(rnd.randint(1,5))])
    kind=rnd.choice(['self','sub','rand','weaken','combo'])
    if kind=='self': r=l.copy()
    elif kind=='sub': r=PolyhedralTermList(rnd.sample(l.terms, rnd.randint(1,len(l.terms))))
    elif kind=='rand': r=TL([rterm(pool) for _ in range(rnd.randint(1,3))])
    elif kind=='weaken': r=PolyhedralTermList([PolyhedralTerm(t.variables, t.constant+rnd.choice([0,0,1,2])) for t in l.terms])
    else:
        ts=[]
        for _ in range(rnd.randint(1,2)):
            acc=None
            for t in l.terms:
                m=rnd.choice([0,1,2])
                if m:
                    acc = t.multiply(m) if acc is None else acc + t.multiply(m)
            if acc is not None and acc.vars: ts.append(acc)
        if not ts: continue
        r=PolyhedralTermList(ts)
    try:
        got=l.refines(r)
    except Exception as e:
        st[(kind,type(e).__name__)]+=1; ex.setdefault((kind,type(e).__name__),(str(l),str(r),repr(e))); continue
    exact=contained(l,r,pool)
    fe=feasible(l,pool)
    key=(kind,'feasL' if fe else 'emptyL', 'exact',exact,'got',got)
    st[key]+=1
    if exact!=got: ex.setdefault(key,(str(l),str(r)))
for k in sorted(st,key=str): print(k,st[k])
for k,v in ex.items(): print('EX',k,v)
