from common import *
import collections
rnd = random.Random(5); names=['a','b','c','x','y','z']
def rterm(pool,kmax=3):
    k=rnd.randint(1,min(kmax,len(pool))); vs=rnd.sample(pool,k)
    return ({v:rnd.choice([-3,-2,-1,1,2,3]) for v in vs}, rnd.randint(-5,5))
use=collections.Counter()
for it in range(3000):
    nv=rnd.randint(2,5); pool=names[:nv]; elim=rnd.sample(pool, rnd.randint(1,min(3,nv-1)))
    terms=TL([rterm(pool) for _ in range(rnd.randint(1,3))]); ctx=TL([rterm(pool) for _ in range(rnd.randint(0,6))])
    order=rnd.choice([[1],[2],[3],[4],[5]]); refine=rnd.random()<0.5
    try:
        f = terms.elim_vars_by_refining if refine else terms.elim_vars_by_relaxing
        res,st=f(ctx,[Var(v) for v in elim],simplify=False,tactics_order=order)
    except Exception as e: use[(order[0],refine,type(e).__name__)]+=1; continue
    for s in st: use[(order[0],refine,'tactic',s[0])]+=1
for k in sorted(use,key=str): print(k,use[k])
