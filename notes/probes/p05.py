import sys, itertools, random, collections
import os; sys.path.insert(0,os.environ.get('PACTI_SRC','/repo/src'))
import warnings; warnings.filterwarnings('ignore')
from pacti.iocontract import IoContract, Term, TermList, Var
from pacti.utils.errors import IncompatibleArgsError
from pacti.utils.lists import list_diff, list_union, list_intersection

D=(0,1)
class FTerm(Term):
    """predicate over finite valuations: support vars (tuple of names) + set of allowed tuples"""
    _n=0
    def __init__(self, support, allowed, label=None):
        self.support=tuple(support); self.allowed=frozenset(allowed)
        if label is None: FTerm._n+=1; label='t%d'%FTerm._n
        self.label=label
    @property
    def vars(self): return [Var(v) for v in self.support]
    def contains_var(self,v): return v.name in self.support
    def __eq__(self,o): return isinstance(o,FTerm) and self.support==o.support and self.allowed==o.allowed
    def __hash__(self): return hash((self.support,self.allowed))
    def __str__(self): return '%s%s'%(self.label,list(self.support))
    __repr__=__str__
    def copy(self): return FTerm(self.support,self.allowed,self.label)
    def rename_variable(self,s,t): raise NotImplementedError
    def holds(self,val): return tuple(val[v] for v in self.support) in self.allowed

def sem(terms, val): return all(t.holds(val) for t in terms)

class Chooser:
    def __init__(self,rnd): self.rnd=rnd; self.log=[]
    def choice(self,tag,opts):
        c=self.rnd.choice(opts); self.log.append((tag,c)); return c
CH=None; ALLV=None
def vals(names):
    for tup in itertools.product(D,repeat=len(names)): yield dict(zip(names,tup))

class FTL(TermList):
    def __hash__(self): return hash(tuple(self.terms))
    def contains_behavior(self,b): return sem(self.terms,{k.name:v for k,v in b.items()})
    def is_empty(self): return not any(sem(self.terms,v) for v in vals(ALLV))
    def refines(self,other):
        exact=all(sem(other.terms,v) for v in vals(ALLV) if sem(self.terms,v))
        return exact and CH.choice('refines',[True,True,False])
    def simplify(self,context=None):
        ctx=context.terms if context else []
        if CH.choice('simp-raise',[False]*5+[True]): raise ValueError('simplify failed')
        terms=[t for t in self.terms if t not in ctx]
        # drop redundant greedily in random order if chosen
        out=list(terms)
        for t in list(terms):
            if CH.choice('simp-drop',[True,False]):
                rest=[u for u in out if u is not t]
                if all(t.holds(v) for v in vals(ALLV) if sem(ctx,v) and sem(rest,v)): out=rest
        return FTL(out)
    def _elim(self,context,vars_to_elim,refine):
        if CH.choice('elim-raise',[False]*6+[True]): raise ValueError('elim failed')
        names=[v.name for v in vars_to_elim]
        out=[]
        for i,t in enumerate(self.terms):
            if not set(t.support)&set(names): out.append(t.copy()); continue
            mode=CH.choice('elim-mode',['exact','exact','weak','leftover'])
            helpers=context.terms+out+[u for j,u in enumerate(self.terms) if j>i]
            keep=[v for v in t.support if v not in names]
            # also may depend on helper vars not eliminated
            extra=[v for v in ALLV if v not in names and v not in keep and CH.choice('extra',[False,False,True])]
            sup=keep+extra
            others=[v for v in ALLV if v not in sup]
            allowed=set()
            for sv in itertools.product(D,repeat=len(sup)):
                base=dict(zip(sup,sv))
                ext=[dict(base,**dict(zip(others,ov))) for ov in itertools.product(D,repeat=len(others))]
                if refine:
                    ok=all(t.holds(v) for v in ext if sem(helpers,v))   # forall others: helpers => t
                    if mode=='weak': ok = ok and CH.choice('strengthen',[True,False])
                else:
                    ok=any(t.holds(v) and sem(helpers,v) for v in ext)  # exists
                    if mode=='weak': ok = ok or CH.choice('weaken',[True,False])
                if ok: allowed.add(sv)
            if mode=='leftover':
                if refine: out.append(t.copy())
                # relax: dropped
                continue
            out.append(FTerm(sup,allowed))
        # spec check of the stub itself
        for v in vals(ALLV):
            if sem(context.terms,v):
                if refine and sem(out,v): assert sem(self.terms,v), 'stub broke refine spec'
                if (not refine) and sem(self.terms,v): assert sem(out,v), 'stub broke relax spec'
        return FTL(out),[]
    def elim_vars_by_refining(self,context,vars_to_elim,simplify=True,tactics_order=None): return self._elim(context,vars_to_elim,True)
    def elim_vars_by_relaxing(self,context,vars_to_elim,simplify=True,tactics_order=None): return self._elim(context,vars_to_elim,False)

def rterm(rnd,pool):
    k=rnd.randint(1,min(3,len(pool))); sup=rnd.sample(pool,k)
    allowed=[tup for tup in itertools.product(D,repeat=k) if rnd.random()<0.7]
    return FTerm(sup,allowed)
def rcontract(rnd,ins,outs):
    a=[rterm(rnd,ins) for _ in range(rnd.randint(0,2))] if ins else []
    g=[rterm(rnd,ins+outs) for _ in range(rnd.randint(0,3))] if ins+outs else []
    return IoContract(FTL(a),FTL(g),[Var(v) for v in ins],[Var(v) for v in outs],simplify=False)
rnd=random.Random(int(sys.argv[1])); N=int(sys.argv[2])
st=collections.Counter(); ex={}
VS=['a','b','c','d','e']
for it in range(N):
    CH=Chooser(rnd)
    nv=rnd.randint(2,5); ALLV=VS[:nv]
    r1=[rnd.choice('-io') for _ in ALLV]; r2=[rnd.choice('-io') for _ in ALLV]
    i1=[v for v,r in zip(ALLV,r1) if r=='i']; o1=[v for v,r in zip(ALLV,r1) if r=='o']
    i2=[v for v,r in zip(ALLV,r2) if r=='i']; o2=[v for v,r in zip(ALLV,r2) if r=='o']
    c1=rcontract(rnd,i1,o1); c2=rcontract(rnd,i2,o2)
    op=rnd.choice(['compose','quotient','merge'])
    try:
        if op=='compose':
            keep=[Var(v) for v in o1+o2 if rnd.random()<0.2]
            c,_=c1.compose_tactics(c2,keep,True,[])
        elif op=='quotient':
            addl=[Var(v) for v in o2+i1 if rnd.random()<0.15]
            c,_=c1.quotient_tactics(c2,addl,True,[])
        else: c=c1.merge(c2)
    except IncompatibleArgsError: st[(op,'IAE')]+=1; continue
    except ValueError: st[(op,'VE')]+=1; continue
    bad=None
    for v in vals(ALLV):
        A1,G1,A2,G2=sem(c1.a.terms,v),sem(c1.g.terms,v),sem(c2.a.terms,v),sem(c2.g.terms,v)
        A,G=sem(c.a.terms,v),sem(c.g.terms,v)
        if op=='compose':
            if A and (not A1 or G1) and (not A2 or G2) and not (A1 and A2 and G): bad=v;break
        elif op=='quotient':
            # c1 = top, c2 = divisor, c = quotient
            if A1 and (not A2 or G2) and (not A or G) and not (A2 and A and G1): bad=v;break
        else:
            if A!=(A1 and A2) or (A and G)!=(A1 and A2 and G1 and G2): bad=v;break
    if bad: st[(op,'VIOLATION')]+=1; ex.setdefault(op,(str(c1),str(c2),str(c),bad,CH.log))
    else: st[(op,'ok')]+=1
for k in sorted(st,key=str): print(k,st[k])
for k,v in ex.items(): print('EX',k); [print('   ',x) for x in v]
