import os, sys, json, time, pickle, struct
os.environ.setdefault('OMP_NUM_THREADS','1'); os.environ.setdefault('OPENBLAS_NUM_THREADS','1')
sys.path.insert(0,'/repo/src')
import warnings; warnings.filterwarnings('ignore')
def server(rfd, wfd):
    # pristine: import only
    from pacti.contracts import PolyhedralIoContract
    r=os.fdopen(rfd,'rb'); w=os.fdopen(wfd,'wb')
    while True:
        hdr=r.read(4)
        if not hdr: break
        n=struct.unpack('I',hdr)[0]; req=pickle.loads(r.read(n))
        pr,pw=os.pipe()
        pid=os.fork()
        if pid==0:
            try:
                c1=PolyhedralIoContract.from_dict(req['c1'],simplify=False); c2=PolyhedralIoContract.from_dict(req['c2'],simplify=False)
                res=c1.compose(c2).to_machine_dict()
                out=('ok',res)
            except Exception as e: out=('exc',type(e).__name__)
            os.write(pw,pickle.dumps(out)); os._exit(0)
        os.close(pw); data=b''
        while True:
            chunk=os.read(pr,65536)
            if not chunk: break
            data+=chunk
        os.close(pr); os.waitpid(pid,0)
        w.write(struct.pack('I',len(data))+data); w.flush()
if __name__=='__main__':
    c2s_r,c2s_w=os.pipe(); s2c_r,s2c_w=os.pipe()
    pid=os.fork()
    if pid==0:
        os.close(c2s_w); os.close(s2c_r); server(c2s_r,s2c_w); os._exit(0)
    os.close(c2s_r); os.close(s2c_w)
    w=os.fdopen(c2s_w,'wb'); r=os.fdopen(s2c_r,'rb')
    from pacti.contracts import PolyhedralIoContract
    c1=PolyhedralIoContract.from_strings(["|i| <= 2"],["o - i <= 0","i - 2o <= 2"],["i"],["o"])
    c2=PolyhedralIoContract.from_strings(["o <= 0.2","-o <= 1"],["o_p - o <= 0"],["o"],["o_p"])
    local=c1.compose(c2).to_machine_dict()
    t=time.time()
    for k in range(50):
        req=pickle.dumps({'c1':c1.to_machine_dict(),'c2':c2.to_machine_dict()})
        w.write(struct.pack('I',len(req))+req); w.flush()
        n=struct.unpack('I',r.read(4))[0]; out=pickle.loads(r.read(n))
        assert out==('ok',local), out
    print('50 forked replays ok, avg s', (time.time()-t)/50)
    w.close()
