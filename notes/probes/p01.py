from gen import *
import collections, traceback
rnd = random.Random(int(sys.argv[1])); N=int(sys.argv[2])
patch = sys.argv[3] if len(sys.argv)>3 else ''
if patch: __import__(patch)
st=collections.Counter(); ex={}
for it in range(N):
    w,(i1,o1),(i2,o2)=rpair(rnd)
    try:
        c1=rcontract(rnd,i1,o1); c2=rcontract(rnd,i2,o2)
    except ValueError as e:
        st[('construct',type(e).__name__)]+=1; continue
    outs=[v for v in o1+o2]
    keep=[v for v in outs if rnd.random()<0.3]
    order=rnd.choice([None,[1],[2],[3],[4],[5],[1,2,3,4,5],[5,4,3,2,1]])
    simp=rnd.random()<0.7
    try:
        c,stats=c1.compose_tactics(c2, keep, simp, order)
    except IncompatibleArgsError as e:
        st[(w,'IAE')]+=1; continue
    except ValueError as e:
        st[(w,'VE')]+=1; continue
    except Exception as e:
        st[(w,type(e).__name__)]+=1; ex.setdefault((w,type(e).__name__),(str(c1),str(c2),keep,order,simp,traceback.format_exc().splitlines()[-3:])); continue
    names=sorted(set(i1+o1+i2+o2))
    hyps=[conj(c.a), z3.Implies(conj(c1.a,1e-7), conj(c1.g)), z3.Implies(conj(c2.a,1e-7), conj(c2.g))]
    bad=find(hyps, c1.a.terms+c2.a.terms+c.g.terms, names)
    used=tuple(sorted(set(s[0] for ss in stats for s in ss)))
    if bad:
        st[(w,'UNSOUND',tuple(order) if order else None)]+=1
        ex.setdefault((w,'UNSOUND',used),(str(c1),str(c2),keep,order,simp,str(c),str(bad)))
    else: st[(w,'ok')]+=1
for k in sorted(st,key=str): print(k,st[k])
for k,v in ex.items():
    print('EX',k);
    for x in v: print('   ',x)
