from gen import *
import collections
rnd = random.Random(int(sys.argv[1])); N=int(sys.argv[2])
st=collections.Counter(); ex={}
def sat(*f):
    s=z3.Solver(); s.add(*f); return s.check()==z3.sat
def contained(hyp, terms, margin=False):
    for t in terms:
        m = q(1e-4*(1+abs(t.constant))) if margin else 0
        if sat(*hyp, lhs(t) > q(t.constant)+m): return False
    return True
for it in range(N):
    ins=['i','j'][:rnd.randint(1,2)]; outs=['o','p'][:rnd.randint(1,2)]
    w={v:rnd.randint(-2,2) for v in ins+outs}
    def rt(pool, slack):
        vs=rnd.sample(pool,rnd.randint(1,min(3,len(pool)))); co={v:rnd.choice([-3,-2,-1,1,2,3]) for v in vs}
        return T(co, sum(co[v]*w[v] for v in vs)+slack)
    a1=[rt(ins,rnd.choice([0,1,2])) for _ in range(rnd.randint(0,2))]; g1=[rt(ins+outs,rnd.choice([0,1,2])) for _ in range(rnd.randint(1,3))]
    kind=rnd.choice(['same','weaker','rand','underA'])
    if kind=='same': a2=list(a1); g2=list(g1)
    elif kind=='weaker':
        a2=a1+[rt(ins,1)]   # stronger assumptions on the right => left assumptions no stronger
        g2=[PolyhedralTerm(t.variables,t.constant+rnd.choice([0,1])) for t in g1][:rnd.randint(1,len(g1))]
    elif kind=='rand':
        a2=[rt(ins,rnd.choice([0,1,2])) for _ in range(rnd.randint(0,2))]; g2=[rt(ins+outs,rnd.choice([0,1,3])) for _ in range(rnd.randint(1,2))]
    else:
        # g2 implied by g1 only under a2: g2 = g1_term + a2_term
        a2=a1+[rt(ins,1)]
        g2=[g1[0]+a2[-1]] if (g1[0]+a2[-1]).vars else list(g1)
    try:
        c1=PolyhedralIoContract(PolyhedralTermList(a1),PolyhedralTermList(g1),[Var(v) for v in ins],[Var(v) for v in outs],simplify=False)
        c2=PolyhedralIoContract(PolyhedralTermList(a2),PolyhedralTermList(g2),[Var(v) for v in ins],[Var(v) for v in outs],simplify=False)
    except ValueError: st['construct']+=1; continue
    try: got=c1.refines(c2)
    except Exception as e: st[(kind,type(e).__name__)]+=1; ex.setdefault((kind,type(e).__name__),(str(c1),str(c2))); continue
    exA=contained([conj(c2.a)], c1.a.terms); exG=contained([conj(c1.g),conj(c2.a)], c2.g.terms)
    exA_m=contained([conj(c2.a)], c1.a.terms,True); exG_m=contained([conj(c1.g),conj(c2.a)], c2.g.terms,True)
    exact = exA and exG
    robustFalse = not (exA_m and exG_m)
    cls = 'mustTrue' if exact else ('mustFalse' if robustFalse else 'grey')
    st[(kind,cls,got)]+=1
    if (cls=='mustTrue' and not got) or (cls=='mustFalse' and got): ex.setdefault((kind,cls,got),(str(c1),str(c2)))
    # implementation/environment
    comp=PolyhedralTermList(g1)  # c1.g as an implementation of c2?
    gi=c2.contains_implementation(comp); ei= contained([conj(comp),conj(c2.a)], c2.g.terms)
    st[('impl',ei,gi)]+=1
    ge=c2.contains_environment(PolyhedralTermList(a2+[rt(ins,0)])); st[('env',ge)]+=1
for k in sorted(st,key=str): print(k,st[k])
for k,v in ex.items(): print('EX',k); [print('   ',x) for x in v]
