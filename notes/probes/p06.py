from gen import *
import collections, itertools
st=collections.Counter(); ex={}
VS=['a','b','c','d']
E=PolyhedralTermList([])
def mk(ins,outs,a_mentions):
    # assumptions mention a_mentions ⊆ ins: simple bounds; guarantees: bound every output by sum of inputs
    a=PolyhedralTermList([T({v:1},5) for v in a_mentions])
    g=PolyhedralTermList([T({o:1},3) for o in outs]+[T({o:-1},3) for o in outs])
    return PolyhedralIoContract(a,g,[Var(v) for v in ins],[Var(v) for v in outs])
roles=['-','i','o']
n=0
for r1 in itertools.product(roles,repeat=len(VS)):
  for r2 in itertools.product(roles,repeat=len(VS)):
    i1=[v for v,r in zip(VS,r1) if r=='i']; o1=[v for v,r in zip(VS,r1) if r=='o']
    i2=[v for v,r in zip(VS,r2) if r=='i']; o2=[v for v,r in zip(VS,r2) if r=='o']
    for am in (0,1):
        c1=mk(i1,o1,i1 if am else []); c2=mk(i2,o2,i2 if am else [])
        outs=o1+[v for v in o2 if v not in o1]
        for keep in ([],outs[:1],['zz']):
            n+=1
            shared_out=set(o1)&set(o2)
            cyc=bool(set(i1)&set(o2)) and bool(set(i2)&set(o1))
            fb_bad = cyc and am and (bool(set(o2)&set(i1)) or bool(set(o1)&set(i2)))
            bad_keep = bool(set(keep)-set(o1)-set(o2))
            meaningless = bool(shared_out) or fb_bad or bad_keep
            try:
                c=c1.compose(c2,keep)
            except IncompatibleArgsError:
                st[('IAE','meaningless' if meaningless else 'MEANINGFUL')]+=1
                if not meaningless: ex.setdefault('iae-meaningful',(str(c1),str(c2),keep))
                continue
            except Exception as e: st[type(e).__name__]+=1; ex.setdefault(type(e).__name__,(str(c1),str(c2),keep)); continue
            if meaningless: st['RETURNED-meaningless']+=1; ex.setdefault('ret-meaningless',(str(c1),str(c2),keep,str(c))); continue
            intv=(set(o1)&set(i2))|(set(i1)&set(o2))
            ei=(set(i1)|set(i2))-intv; eo=((set(o1)|set(o2))-intv)|set(keep)
            gi=[v.name for v in c.inputvars]; go=[v.name for v in c.outputvars]
            wf=len(gi)==len(set(gi)) and len(go)==len(set(go)) and not set(gi)&set(go) and set(v.name for v in c.a.vars)<=set(gi) and set(v.name for v in c.g.vars)<=set(gi)|set(go)
            ok=set(gi)==ei and set(go)==eo and wf
            st[('ret',ok)]+=1
            if not ok: ex.setdefault('bad-iface',(str(c1),str(c2),keep,str(c)))
print(n)
for k in sorted(st,key=str): print(k,st[k])
for k,v in ex.items(): print('EX',k); [print('   ',x) for x in v]
