from gen import *
import collections, traceback
rnd = random.Random(int(sys.argv[1])); N=int(sys.argv[2])
st=collections.Counter(); ex={}
def aterm(pool):
    r=rnd.random()
    if r<0.1: return T({}, rnd.randint(-2,2))
    if r<0.3: v=rnd.choice(pool); return T({v:rnd.choice([-2,-1,1,2])}, rnd.randint(-3,3))
    return rterm(rnd,pool)
def atl(pool,lo=0,hi=4): return PolyhedralTermList([aterm(pool) for _ in range(rnd.randint(lo,hi))])
def site(tb):
    fr=[f for f in traceback.extract_tb(tb) if '/pacti/' in f.filename]
    return '%s:%s'%(fr[-1].filename.split('/pacti/')[-1], fr[-1].name) if fr else 'outside'
def run(name,f):
    try: f(); st[(name,'ok')]+=1
    except IncompatibleArgsError: st[(name,'IAE')]+=1
    except ValueError as e:
        st[(name,'VE')]+=1
    except Exception as e:
        k=(name,type(e).__name__,site(e.__traceback__)); st[k]+=1; ex.setdefault(k,traceback.format_exc().splitlines()[-4:])
for it in range(N):
    pool=['a','b','c','d'][:rnd.randint(1,4)]
    tl=atl(pool); ctx=atl(pool); ev=[Var(v) for v in rnd.sample(pool+['zz'],rnd.randint(0,len(pool)))]
    order=rnd.choice([None,[],[1],[2],[3],[4],[5],[6],[5,4,3,2,1],[1,1],[4,4]])
    simp=rnd.random()<0.5
    run('refine',lambda: tl.elim_vars_by_refining(ctx,ev,simp,order))
    run('relax',lambda: tl.elim_vars_by_relaxing(ctx,ev,simp,order))
    run('simplify',lambda: tl.simplify(ctx))
    run('simplify0',lambda: tl.simplify())
    run('refines',lambda: tl.refines(ctx))
    run('is_empty',lambda: tl.is_empty())
    run('optimize',lambda: tl.optimize({Var(rnd.choice(pool+['zz'])):1}, rnd.random()<0.5))
    run('contains',lambda: tl.contains_behavior({Var(v):rnd.randint(-2,2) for v in pool}))
    run('tostr',lambda: tl.to_str_list())
    # contracts
    w,(i1,o1),(i2,o2)=rpair(rnd)
    def mk(i,o):
        return PolyhedralIoContract(atl(i,0,2) if i else PolyhedralTermList([]), atl(i+o,0,3), [Var(v) for v in i],[Var(v) for v in o], simplify=rnd.random()<0.5)
    try: c1=mk(i1,o1); c2=mk(i2,o2)
    except ValueError: st['construct-VE']+=1; continue
    except Exception as e: st[('construct',type(e).__name__,site(e.__traceback__))]+=1; continue
    keep=[v for v in o1+o2 if rnd.random()<0.2]
    run('compose',lambda: c1.compose_tactics(c2,keep,simp,order))
    run('quotient',lambda: c1.quotient_tactics(c2,[Var(v) for v in o2+i1 if rnd.random()<0.2],simp,order))
    run('merge',lambda: c1.merge(c2))
    run('crefines',lambda: c1.refines(c2))
    run('copy',lambda: c1.copy())
    run('rename',lambda: c1.rename_variable(Var(rnd.choice(i1+o1)),Var(rnd.choice(i1+o1+['nn']))))
    run('coptimize',lambda: c1.optimize(rnd.choice(i1+o1+['2 %s + 1'%i1[0]]), True))
    run('bounds',lambda: c1.get_variable_bounds(rnd.choice(i1+o1)))
    run('todict',lambda: PolyhedralIoContract.from_strings(**c1.to_dict()))
for k in sorted(st,key=str):
    if k[1:2] not in (('ok',),('VE',),('IAE',)): print(k,st[k])
print('total ok', sum(v for k,v in st.items() if k[1:2]==('ok',)))
for k,v in ex.items(): print('EX',k); [print('   ',x) for x in v]
