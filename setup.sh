#!/bin/sh
# offline, idempotent: make sure the tools the checks import are in /venv (or /verif/.deps)
set -e
HERE="$(cd "$(dirname "$0")" && pwd)"
W=/opt/veriftools/wheels
/venv/bin/python -c 'import hypothesis' 2>/dev/null || /venv/bin/pip install -q --no-index --find-links "$W" hypothesis
/venv/bin/python -c 'import z3' 2>/dev/null || /venv/bin/pip install -q --no-index --find-links "$W" z3-solver
if ! PYTHONPATH="$HERE/.deps" /venv/bin/python -c 'import atheris' 2>/dev/null; then
  /venv/bin/pip install -q --no-index --find-links "$W" --target "$HERE/.deps" atheris 2>/dev/null || echo "setup: atheris not installable for /venv python; fuzz tier falls back to Hypothesis-driven byte fuzzing"
fi
/venv/bin/python -c 'import hypothesis, z3, scipy, numpy, sympy, pyparsing; print("setup ok: hypothesis", hypothesis.__version__, "z3", z3.get_version_string())'
