#!/venv/bin/python
"""atheris / libFuzzer target for the constraint-string parser (thorough tier of C09 and C14).

bytes -> ASCII string (a libFuzzer token dictionary and a corpus of strings from the repository's tests keep the fuzzer close to the language)
-> pv.props.c09.judge_string: (1) only documented exceptions may escape, (2) parsing twice gives the same terms,
(3) when the independent reference reader reads the string too, the parsed terms are equivalent to the written relation
for all real points (z3).  A violation is written to $PV_FUZZ_OUT/violation-<sha>.json and the process aborts so that
libFuzzer saves the input; statistics are flushed to $PV_FUZZ_OUT/stats-<pid>.json every 2000 executions.
"""
import collections
import hashlib
import json
import os
import sys

HERE = os.path.dirname(os.path.dirname(os.path.abspath(__file__)))
sys.path.insert(0, HERE)
sys.path.insert(0, os.path.join(HERE, ".deps"))
import atheris  # noqa: E402

with atheris.instrument_imports(include=["pacti", "pyparsing"]):
    from pv import env  # noqa: E402
    from pv.props import c09  # noqa: E402

TOKENS = ["x", "y", "z", "e1", "1", "2", "3", "0.5", ".25", "10", "1e1", "2.", "0", " ", " ", "+", "-", "*", "/", "(", ")", "|",
          "<=", ">=", "=", "==", " <= ", " >= ", "(1/2)", "(2*3)", "|x|", "2x", "x_1"]
OUT = os.environ.get("PV_FUZZ_OUT", "/tmp/pv_fuzz_out")
os.makedirs(OUT, exist_ok=True)
STATS = collections.Counter()
SAMPLES = {}


def decode(data):
    """raw ASCII (libFuzzer runs with -only_ascii=1 and the token dictionary fuzz/parse.dict)"""
    return data[:120].decode("ascii", "ignore")


def flush():
    with open(os.path.join(OUT, "stats-%d.json" % os.getpid()), "w") as f:
        json.dump({"stats": dict(STATS), "samples": SAMPLES}, f)


def one(data):
    s = decode(data)
    STATS["executions"] += 1
    try:
        viol, label = c09.judge_string(s)
    except env.Undocumented as u:
        viol, label = {"what": "undocumented exception %s at %s while parsing %r" % (type(u.exc).__name__, u.site, s),
                       "sig": {"kind": "undocumented-exception", "type": type(u.exc).__name__, "site": u.site}, "detail": {"string": s}}, "undocumented"
    except c09.exact.Inconclusive:
        viol, label = None, "inconclusive"
    STATS[label] += 1
    if label not in SAMPLES or (label == "ok-equivalent" and len(s) > len(SAMPLES[label]) and len(s) < 60):
        SAMPLES[label] = s
    if STATS["executions"] % 100 == 0:
        flush()
    if viol is not None:
        h = hashlib.sha1(s.encode("utf-8", "replace")).hexdigest()[:12]
        with open(os.path.join(OUT, "violation-%s.json" % h), "w") as f:
            json.dump({"case": {"string": s}, "viol": viol}, f)
        flush()
        raise RuntimeError("property violation: " + viol["what"])


def main():
    atheris.Setup(sys.argv, one)
    try:
        atheris.Fuzz()
    finally:
        flush()


if __name__ == "__main__":
    main()
