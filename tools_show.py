import json,sys
for f in sys.argv[1:]:
    d=json.load(open(f)); c=d['case']; v=d['violation']
    print(f); print('  case', json.dumps(c)[:1500]); print('  what', v['what']); print('  sig', v['sig']); print('  detail', json.dumps(v['detail'],default=str)[:700])
